"""C20 — methods are stateless and deterministic across calls.

Implementation side: ONE method object is fed a sequence of decision matrices of varying shape (some of
them out of the method's domain or not matrices at all, so the call raises) with a probe matrix at several
positions.  Oracle (from the property's text, independent of the model): every call returns, bit for bit,
what a FRESH object built with the same parameters (and seed) returns for that matrix; the probe's outputs
agree at every position; a twin object fed the same sequence agrees call by call; two fresh objects agree.
The same oracle on two more kinds of history: construction histories (objects of the same class built with OTHER parameters
before the object under test: a default shared between instances shows only there) and streams of throw-away matrices (no
matrix outlives its call: state keyed by something recyclable such as id(dm) collides only there).
A fourth kind of history mixes calls that use the OPTIONAL per-call arguments of the entry point (SIMUS.evaluate(dm, b=...);
discovered from the signatures) with plain calls: the plain probe before and after them must give a fresh object's output.
A fifth kind (refuse) is about what a call that RAISES leaves in the PROCESS: a refused call (every documented way of refusing,
every class that refuses, alone and as the last step of a pipeline), then - same process, same and fresh objects - calls
whose legitimate computation goes through 1/0, 0/0, log of denormals, overflow, or a third-party estimator; each must give a
fresh process's output (these runs do not wrap the single calls in np.errstate / catch_warnings, which would undo the damage).
Every run (the sequence, the twin, each fresh reference) happens in its OWN process forked from a worker that has only
imported the library and never called it, so state kept at module or class level (a memo dict, a process-wide random
generator) cannot leak into the reference outputs.
Model side: the correspondence is (a) the extracted table `Skc/Generated/SelfWrites.lean` — empty is the
premise of `stateless_history`; a live object whose `vars()`, class attributes or module-level containers
change during a call contradicts it — and (b) the driver op `hist` run on a toy history (stateless /
caching / counting steps), judged by the same oracle to show it tells them apart."""
from __future__ import annotations

import hashlib
import itertools
import json
import struct
import sys

import numpy as np

import common as C
import gen as G
import methods as M

PID = "C20"
RULE = (
    "cases: (method spec, pool of 3-5 decision matrices of varying shape incl. same-shape/different-values pairs and "
    "out-of-domain members [negative / zero / NaN cells, all-minimise objectives, missing filter criteria, a single row, "
    "non-matrix arguments] that make calls raise, and - always for the methods whose parameters name criteria [the filters, "
    "pipelines holding one], 60% otherwise - a pair of matrices with the SAME criterion / alternative names at DIFFERENT "
    "positions [the same problem with columns and rows rotated / shuffled, the same numbers with the names rotated, a new "
    "criterion in front]; the probe is then one of the pair and its partner precedes the last probe; a history of 2-8 pool "
    "members, a probe member, 2-4 probe positions); one "
    "object runs the whole sequence, a twin runs it again, fresh objects give the reference output of every member. "
    "Specs: WSM, WPM, TOPSIS x5 metrics, RatioMOORA, RefPointMOORA, FMF, MultiMOORA, ELECTRE1/2 (default and random "
    "thresholds), SIMUS (rank_by 1,2; small matrices); StandarScaler, MinMaxScaler, MaxAbsScaler, MaxScaler, VectorScaler, "
    "SumScaler (all targets and options), CenitDistanceMatrixScaler, CenitDistance; NegateMinimize, InvertMinimize, "
    "MinimizeToMaximize; EqualWeighter, StdWeighter, EntropyWeighter, CRITIC/Critic (pearson, spearman, scale); Filter "
    "(callables), FilterGT/GE/LT/LE/EQ/NE, FilterIn/NotIn, FilterNonDominated; SimpleImputer (4 strategies), "
    "IterativeImputer (seeded, also sample_posterior / random order), KNNImputer; PushNegatives, AddValueToZero; in EVERY round "
    "of specs (>= 3 rounds in the quick tier) every method that takes a seed in parameterisations that consume random numbers at "
    "each call: IterativeImputer(random_state=int) with sample_posterior, with imputation_order='random', with both, alone and "
    "as the first step of an evaluate and of a transform pipeline, on matrices with NaN in >= 2 criteria, probe accepted and at "
    ">= 3 positions (first call, middle, last call); pipelines "
    "(evaluate and transform) of 1-3 transformers + a decision maker; classes made by mkagg / mktransformer (with and "
    "without hyper-parameters); RankInvariantChecker (fixed seed, repeat 1-2, both strategies) over TOPSIS / RatioMOORA / a "
    "pipeline; and in EVERY run (>= 18 quick) histories for a RankInvariantChecker with an INTEGER seed in which a call RAISES "
    "MIDWAY - after the noise of at least one alternative has been drawn - followed by an accepted probe: (a) a matrix whose two "
    "last-ranked alternatives are the same dominated row (the second-to-last has no room: refused after all the others but the "
    "best were worsened), (b) WeightedSumModel (alone / behind SumScaler) on a matrix whose worst row is all zeros (its worsening "
    "goes below 0 and the decision maker rejects the mutant), (c) FilterGE / FilterLE + TOPSIS / RatioMOORA with "
    "allow_missing_alternatives=False and the threshold at the worst row's own value (its worsening drops it); the failing "
    "matrix is fed once or twice, the probe sits at position 0 (70%), right after the failing call and at the end.  Thorough adds, per spec, ALL sequences of length <= 4 over a pool of 3 matrices (one refused).  "
    "CONSTRUCTION HISTORIES (kind ctor, >= 90 quick; every class whose constructor takes hyper-parameters - the mkagg / mktransformer "
    "classes with hyper-parameters 6x per round, every built-in transformer with parameters, TOPSIS / ELECTRE1 / ELECTRE2 / SIMUS, "
    "RankInvariantChecker): in ONE process [an object with parameters A (80%)], 1-3 objects of the same class with OTHER given "
    "parameters B (constructor, or first.copy(**B) 40%; called on the matrix 70%), then an object with A again, alone or (40%) as a "
    "step of a new pipeline; A = nothing given (declared defaults, 50% where the constructor allows it) or a random subset of the "
    "hyper-parameters; the last object, the first one and the first one asked again afterwards must hold the parameters and return "
    "the output of the ONLY object built in a fresh process by the same constructor call, and every parameter not given must equal "
    "(==) the default the constructor's signature declares.  STREAMS OF THROW-AWAY MATRICES (kind stream, >= 12 quick): one "
    "long-lived object - SumScaler->WSM, MinMaxScaler->TOPSIS, InvertMinimize->VectorScaler->SumScaler->TOPSIS, "
    "NegateMinimize->StandarScaler->RatioMOORA (evaluate and transform), a random pipeline, a random transformer, a random decision "
    "maker, a decorated class - is fed 100-300 small matrices of different content (fixed shape and labels 60%, varying otherwise; "
    "0-10% out of domain) none of which outlives its call (del / del + gc.collect() / built inline in the call / name bound again), "
    "a probe kept by the caller at 3-5 positions; every output is compared with a fresh object's (own process) for that content.  "
    "PER-CALL ARGUMENTS (kind hist with `kws`, >= 16 quick per class): for every class whose evaluate / transform takes OPTIONAL "
    "arguments besides the matrix - found by inspecting the signatures of one object of every class of the specs; SIMUS.evaluate(dm, "
    "b=...) today - histories of 3-7 calls in which the first such call (never the last; 60% on another accepted matrix with as many "
    "criteria as the probe) and 40% of the others pass them: one number per criterion taken from the criterion's data, the same with "
    "None entries, one entry too few / too many (the call raises), a single number, the declared default given explicitly; as list / "
    "tuple / ndarray; the other calls and EVERY probe are plain; the probe sits at position 0 (70%), right after the first such call "
    "and at the end; a call with arguments is compared with a fresh object (own process) called the same way, a plain one with a "
    "fresh object's plain call.  "
    "A REFUSED CALL, THEN FLOATING-POINT SPECIAL CASES (kind refuse, >= 40 quick, a loop of its own): in ONE process [all the probes "
    "first, 25%], a call that the library refuses - a zero -> WPM / FMF / MultiMOORA, a negative value -> WSM / WPM / FMF / MultiMOORA, "
    "a minimise objective -> WSM / WPM, a NaN -> WSM / WPM / FMF / RatioMOORA / RefPointMOORA, each class ALONE and as the LAST STEP OF "
    "A PIPELINE in every way the value can reach it (passed through SumScaler(weights); a zero made by MinMaxScaler; a negative made by "
    "NegateMinimize / StandarScaler; a NaN made by CenitDistanceMatrixScaler on a constant criterion; behind InvertMinimize / "
    "VectorScaler), a non-matrix argument / a single row to any class, SIMUS.evaluate(dm, b=one entry too few / too many), a filter "
    "whose criterion is missing (alone / first step) - made once or twice, then 7-8 probes: on NEW objects 1/0 -> inf (InvertMinimize on "
    "a criterion to minimise holding a 0, alone or before WPM / WSM / RatioMOORA / FMF), 0/0 -> NaN (CenitDistanceMatrixScaler, CRITIC, "
    "VectorScaler, SumScaler on a constant / all-zero criterion), logarithms and products of 1e-160 .. 1e-320 (EntropyWeighter, WPM, "
    "FMF), overflow to inf (values 1e155 .. 3e307 through WSM, WPM, FMF, RatioMOORA, VectorScaler, StandarScaler, SumScaler), "
    "IterativeImputer(sample_posterior=True; integer seed or, 40%, random_state=None = numpy's process-wide generator, seeded by the "
    "caller at the start of the process), KNNImputer, alone or before TOPSIS; on the SAME object that refused 1-2 matrices of its "
    "domain (a 0 in a criterion to minimise where it starts with InvertMinimize; tiny / huge / constant criteria).  The caller's "
    "process-wide settings (numpy error state: numpy's defaults 60% / all ignored / all warned; warnings ignored; np.random and random "
    "seeded) are made ONCE at the start of the process and no call of these runs is wrapped in np.errstate / catch_warnings; every "
    "probe output must equal that of a fresh process with the same settings in which the probe is the only call.  "
    "Non-trivial: >= 2 successful calls on >= 2 different matrices and the probe at >= 2 positions (per-call arguments: also the probe "
    "accepted after the first call that uses them and an accepted plain call of another matrix; ctor: the last call accepted and "
    ">= 1 other object in between; stream: >= 50 accepted calls, >= 25 different outputs; refuse: the call was refused and >= 3 "
    "probes are accepted in a fresh process); distinct by case hash."
)
ASSUMPTIONS = [
    "bit-for-bit = sha1 over dtype, shape and bytes of every array reachable from the output (values, every e_ entry, "
    "alternatives; the six parts of a transformed matrix), exact float bits of scalars, exception class for failures",
    "BLAS / LAPACK / CBC are run single-threaded (OMP_NUM_THREADS=1) so that they are deterministic themselves",
    "a fresh object is a new object in a new process (os.fork of a process that imported skcriteria but never called a "
    "method); the sequence under test, its twin and every reference output each get their own process",
    "whether two throw-away matrices of a stream get the same address is up to the allocator: a stream case is a statistical "
    "probe (100-300 matrices, four ways of dropping them), its replay re-runs the whole stream",
    "IterativeImputer is given an integer random_state whenever its configuration draws random numbers; a "
    "numpy Generator / RandomState INSTANCE passed as a parameter is the caller's state and is not generated",
    "kind refuse: the reference for a call after a refused call is a fresh process given the SAME settings by its caller (numpy "
    "error state, warnings filter, seeds of np.random / random) in which that call is the only one; an IterativeImputer with "
    "random_state=None is used there only as an observer of numpy's process-wide generator (seeded by the caller, called once per "
    "process, never when the probes are also run before the refused call)",
    "the scanner behind Generated.selfWrites is complete for the ways the code stores state (rules in the generated "
    "file's header); checked dynamically here by deep-comparing vars(obj), class attributes and module-level containers "
    "of every skcriteria module before and after every call",
]
PARTIAL = ("the model is abstract (step : Obj -> DM -> Obj x Out); that the real call bodies perform no store is the "
           "extracted table plus the dynamic state comparison, not a semantics of Python")
EXHAUSTIVE = True
TRUSTED = ["harness/extract.py::self_writes (AST scanner) and its completeness assumption for C20"]

CRITS = ["C0", "C1", "C2", "C3", "C4", "C5"]


# ----------------------------------------------------------------------------- extraction (before the Lean build)


def extract(ctx):
    """regenerate lean/Skc/Generated/SelfWrites.lean from the tree under test"""
    import extract as X

    changed = X.self_writes()
    C.log(f"C20 extract: SelfWrites.lean {'rewritten' if changed else 'unchanged'} from {C.REPO}")
    suspects = getattr(X.self_writes_scan, "suspects", [])
    if suspects:
        C.log("memoised module-level functions (process-wide caches; not an obligation, the history runs are widened): "
              + "; ".join(" | ".join(e) for e in suspects[:5]))
        ctx.escalate = True


# ----------------------------------------------------------------------------- method specs -> live objects

TR = {
    # class -> (module under skcriteria.preprocessing, family)
    "StandarScaler": ("scalers", "scaler"), "MinMaxScaler": ("scalers", "scaler"), "MaxAbsScaler": ("scalers", "scaler"),
    "MaxScaler": ("scalers", "scaler"), "VectorScaler": ("scalers", "scaler"), "SumScaler": ("scalers", "scaler"),
    "CenitDistanceMatrixScaler": ("scalers", "scaler"), "CenitDistance": ("distance", "scaler"),
    "NegateMinimize": ("invert_objectives", "inverter"), "InvertMinimize": ("invert_objectives", "inverter"),
    "MinimizeToMaximize": ("invert_objectives", "inverter"),
    "EqualWeighter": ("weighters", "weighter"), "StdWeighter": ("weighters", "weighter"),
    "EntropyWeighter": ("weighters", "weighter"), "CRITIC": ("weighters", "weighter"), "Critic": ("weighters", "weighter"),
    "Filter": ("filters", "filter"), "FilterGT": ("filters", "filter"), "FilterGE": ("filters", "filter"),
    "FilterLT": ("filters", "filter"), "FilterLE": ("filters", "filter"), "FilterEQ": ("filters", "filter"),
    "FilterNE": ("filters", "filter"), "FilterIn": ("filters", "filter"), "FilterNotIn": ("filters", "filter"),
    "FilterNonDominated": ("filters", "filter"),
    "SimpleImputer": ("impute", "imputer"), "IterativeImputer": ("impute", "imputer"), "KNNImputer": ("impute", "imputer"),
    "PushNegatives": ("push_negatives", "push"), "AddValueToZero": ("increment", "increment"),
}

_FNS = {
    "gt": lambda a: (lambda v: v > a),
    "le": lambda a: (lambda v: v <= a),
    "near": lambda a: (lambda v: abs(v - a) < 2.0),
}


def _dekw(v):
    """JSON -> constructor argument"""
    if isinstance(v, dict):
        if "$fn" in v:
            return _FNS[v["$fn"]](v["arg"])
        if "$f" in v:
            return float(v["$f"])
        if "$tuple" in v:
            return tuple(_dekw(x) for x in v["$tuple"])
        return {k: _dekw(x) for k, x in v.items()}
    if isinstance(v, list):
        return [_dekw(x) for x in v]
    return v


_USER = None


def _user_classes():
    """classes made with the decorators of skcriteria.extend (pure functions of their arguments)"""
    global _USER
    if _USER is None:
        from skcriteria.extend import mkagg, mktransformer
        from skcriteria.utils import rank

        @mkagg(alpha=1.0, flip=False)
        def UserAgg(matrix, weights, hparams, **kwargs):
            score = (matrix * weights).sum(axis=1) * hparams.alpha
            return rank.rank_values(score, reverse=not hparams.flip), {"score": score, "alpha": hparams.alpha}

        @mkagg
        def PlainAgg(**kwargs):
            score = kwargs["matrix"].max(axis=1)
            return rank.rank_values(score, reverse=True), {"score": score}

        @mktransformer(k=2.0, shift=0.0)
        def UserScale(matrix, hparams, **kwargs):
            return {"matrix": matrix * hparams.k + hparams.shift, "dtypes": None}

        @mktransformer
        def PlainTrans(weights, **kwargs):
            return {"weights": weights / weights.sum()}

        _USER = {"UserAgg": UserAgg, "PlainAgg": PlainAgg, "UserScale": UserScale, "PlainTrans": PlainTrans}
    return _USER


def build(spec):
    """(object, name of the call) of a spec"""
    import importlib

    k = spec["k"]
    with M.quiet():
        if k == "agg":
            return M.build(spec["spec"]), "evaluate"
        if k == "tr":
            if spec["cls"] == "IterativeImputer":
                # scikit-learn only exposes the estimator after this import (the library does not do it itself)
                from sklearn.experimental import enable_iterative_imputer  # noqa: F401
            mod = importlib.import_module("skcriteria.preprocessing." + TR[spec["cls"]][0])
            return getattr(mod, spec["cls"])(**_dekw(spec.get("kw", {}))), "transform"
        if k == "pipe":
            from skcriteria.pipeline import mkpipe

            return mkpipe(*[build(s)[0] for s in spec["steps"]]), spec.get("op", "evaluate")
        if k == "user":
            cls = _user_classes()[spec["cls"]]
            return cls(**spec.get("kw", {})), ("evaluate" if "Agg" in spec["cls"] else "transform")
        if k == "ric":
            from skcriteria.cmp.ranks_rev.rank_inv_check import RankInvariantChecker

            return RankInvariantChecker(build(spec["dmaker"])[0], repeat=spec["repeat"], random_state=spec["seed"],
                                        last_diff_strategy=spec["strategy"],
                                        allow_missing_alternatives=spec.get("allow_missing", False)), "evaluate"
    raise KeyError(k)


def spec_name(spec):
    k = spec["k"]
    if k == "agg":
        return spec["spec"]["name"]
    if k in ("tr", "user"):
        return spec["cls"]
    if k == "pipe":
        return "pipe(" + ",".join(spec_name(s) for s in spec["steps"]) + ")." + spec.get("op", "evaluate")
    return "RankInvariantChecker(" + spec_name(spec["dmaker"]) + ")"


def spec_family(spec):
    k = spec["k"]
    if k == "tr":
        return TR[spec["cls"]][1]
    return {"agg": "agg", "pipe": "pipeline", "user": "extend", "ric": "rank_reversal"}[k]


def _target(rng):
    return rng.choice(["matrix", "weights", "both"])


def random_tr_spec(rng, cls=None):
    cls = cls or rng.choice(list(TR))
    kw = {}
    if cls == "StandarScaler":
        kw = {"target": _target(rng), "with_mean": rng.random() < 0.7, "with_std": rng.random() < 0.7}
    elif cls == "MinMaxScaler":
        kw = {"target": _target(rng), "clip": rng.random() < 0.3,
              "criteria_range": {"$tuple": rng.choice([[0, 1], [-1, 1], [0.5, 2.5]])}}
    elif cls in ("MaxAbsScaler", "MaxScaler", "VectorScaler", "SumScaler", "PushNegatives"):
        kw = {"target": _target(rng)}
    elif cls == "AddValueToZero":
        kw = {"target": _target(rng), "value": rng.choice([1.0, 0.5, 0.125])}
    elif cls == "EqualWeighter":
        kw = {"base_value": rng.choice([1.0, 2.0, 0.25])}
    elif cls in ("CRITIC", "Critic"):
        kw = {"correlation": rng.choice(["pearson", "spearman"]), "scale": rng.random() < 0.6}
    elif cls == "Filter":
        kw = {"criteria_filters": {c: {"$fn": rng.choice(list(_FNS)), "arg": rng.randint(4, 24) / 8}
                                   for c in rng.sample(CRITS[:3], rng.randint(1, 2))},
              "ignore_missing_criteria": rng.random() < 0.4}
    elif cls in ("FilterGT", "FilterGE", "FilterLT", "FilterLE", "FilterEQ", "FilterNE"):
        kw = {"criteria_filters": {c: rng.randint(4, 24) / 8 for c in rng.sample(CRITS[:3], rng.randint(1, 2))},
              "ignore_missing_criteria": rng.random() < 0.4}
    elif cls in ("FilterIn", "FilterNotIn"):
        kw = {"criteria_filters": {c: [rng.randint(1, 40) / 8 for _ in range(rng.randint(1, 6))]
                                   for c in rng.sample(CRITS[:3], rng.randint(1, 2))},
              "ignore_missing_criteria": rng.random() < 0.4}
    elif cls == "FilterNonDominated":
        kw = {"strict": rng.random() < 0.5}
    elif cls == "SimpleImputer":
        st = rng.choice(["mean", "median", "most_frequent", "constant"])
        kw = {"strategy": st}
        if st == "constant":
            kw["fill_value"] = rng.choice([0.0, 1.5])
    elif cls == "IterativeImputer":
        v = rng.choice(["plain", "posterior", "random-order", "few-iter"])
        kw = {"random_state": rng.randint(0, 99)}
        if v == "posterior":
            kw["sample_posterior"] = True
        elif v == "random-order":
            kw["imputation_order"] = "random"
        elif v == "few-iter":
            kw.update(max_iter=2, initial_strategy="median")
    elif cls == "KNNImputer":
        kw = {"n_neighbors": rng.choice([1, 2, 5]), "weights": rng.choice(["uniform", "distance"])}
    return {"k": "tr", "cls": cls, "kw": kw}


AGG_NAMES = ["WSM", "WPM", "TOPSIS", "RatioMOORA", "RefPointMOORA", "FMF", "MultiMOORA", "ELECTRE1", "ELECTRE2", "SIMUS"]


def random_pipe_spec(rng):
    pre = rng.sample(["NegateMinimize", "InvertMinimize", "SumScaler", "VectorScaler", "MinMaxScaler", "StandarScaler",
                      "MaxAbsScaler", "EqualWeighter", "StdWeighter", "CRITIC", "PushNegatives", "AddValueToZero",
                      "FilterNonDominated", "SimpleImputer", "CenitDistanceMatrixScaler"], rng.randint(1, 3))
    agg = M.random_spec(rng, ["WSM", "WPM", "TOPSIS", "RatioMOORA", "RefPointMOORA", "FMF", "MultiMOORA", "ELECTRE1", "ELECTRE2"])
    return {"k": "pipe", "steps": [random_tr_spec(rng, c) for c in pre] + [{"k": "agg", "spec": agg}],
            "op": rng.choice(["evaluate", "evaluate", "transform"])}


def random_ric_spec(rng):
    dm = rng.choice([{"k": "agg", "spec": {"name": "TOPSIS", "metric": "euclidean"}}, {"k": "agg", "spec": {"name": "RatioMOORA"}},
                     {"k": "pipe", "steps": [{"k": "tr", "cls": "SumScaler", "kw": {"target": "both"}},
                                             {"k": "agg", "spec": {"name": "TOPSIS", "metric": "cityblock"}}]}])
    return {"k": "ric", "dmaker": dm, "repeat": rng.choice([1, 1, 2]), "seed": rng.randint(0, 2 ** 31 - 1),
            "strategy": rng.choice(["median", "mean"]), "allow_missing": rng.random() < 0.3}


MIDWAY = ["dup-worst", "neg-push", "dropped"]


def _dominated_row(mc, factor=2.0):
    """a row strictly worse than every row of `mc` on every criterion (positive data)"""
    row = []
    for j, o in enumerate(mc["objectives"]):
        col = [r[j] for r in mc["matrix"]]
        row.append(min(col) / factor if o == 1 else max(col) * factor + 1.0)
    return row


def _clear_of_filter(mc, j, flt):
    """move criterion j of an accepted matrix so far inside the filter that no bounded worsening can cross the threshold"""
    col = [r[j] for r in mc["matrix"]]
    lo, hi = min(col), max(col)
    if flt["cls"] == "FilterGE":
        off = max(0.0, flt["thr"] + (hi - lo) + 1.0 - lo)
        for r in mc["matrix"]:
            r[j] = r[j] + off
    else:
        f = 0.9 * flt["thr"] / (2.0 * hi + 1.0)
        if f < 1.0:
            for r in mc["matrix"]:
                r[j] = r[j] * f
    return mc


def _clear_of_zero(mc):
    """lift every criterion of an accepted matrix so far above 0 that no bounded worsening (at most the column's range)
    can reach it"""
    for j in range(len(mc["matrix"][0])):
        col = [r[j] for r in mc["matrix"]]
        off = max(0.0, (max(col) - min(col)) + 1.0 - min(col))
        for r in mc["matrix"]:
            r[j] = r[j] + off
    return mc


def gen_midway_case(rng, how=None):
    """a history for a seeded RankInvariantChecker in which one call raises AFTER random numbers were drawn for at least one
    alternative, followed by an accepted probe (see RULE)"""
    how = how or rng.choice(MIDWAY)
    topsis = {"k": "agg", "spec": {"name": "TOPSIS", "metric": rng.choice(["euclidean", "cityblock"])}}
    moora = {"k": "agg", "spec": {"name": "RatioMOORA"}}
    scaled = {"k": "pipe", "steps": [{"k": "tr", "cls": "SumScaler", "kw": {"target": "both"}}, topsis]}
    allow = rng.random() < 0.4
    if how == "dup-worst":
        dmaker = rng.choice([topsis, moora, scaled])
    elif how == "neg-push":
        wsm = {"k": "agg", "spec": {"name": "WSM"}}
        dmaker = rng.choice([wsm, {"k": "pipe", "steps": [{"k": "tr", "cls": "SumScaler", "kw": {"target": "both"}}, wsm]}])
    else:
        dmaker = None  # needs the failing matrix first
        allow = False
    spec = {"k": "ric", "dmaker": dmaker or topsis, "repeat": rng.choice([1, 1, 2]), "seed": rng.choice([0, 1, rng.randint(0, 2 ** 31 - 1)]),
            "strategy": rng.choice(["median", "mean"]), "allow_missing": allow}
    n = rng.randint(2, 3)
    bad = in_domain(rng, spec, m=rng.randint(4, 5), n=n)
    bad["criteria"] = CRITS[:n]
    mx = bad["matrix"]
    flt = None
    if how == "dup-worst":
        i, p = rng.sample(range(len(mx)), 2)
        mx[i] = _dominated_row(bad)
        mx[p] = list(mx[i])
    elif how == "neg-push":
        mx[rng.randrange(len(mx))] = [0.0] * n
    else:
        i = rng.randrange(len(mx))
        mx[i] = _dominated_row(bad)
        j = rng.randrange(n)
        flt = {"cls": "FilterGE" if bad["objectives"][j] == 1 else "FilterLE", "thr": mx[i][j]}
        spec["dmaker"] = {"k": "pipe", "steps": [{"k": "tr", "cls": flt["cls"], "kw": {"criteria_filters": {CRITS[j]: flt["thr"]}}},
                                                 rng.choice([topsis, moora])]}
    bad["ood"] = "midway:" + how
    good = []
    for _ in range(2):
        g = in_domain(rng, spec, m=rng.randint(3, 5), n=n if flt or rng.random() < 0.5 else None)
        g["criteria"] = CRITS[: len(g["matrix"][0])]
        if flt:
            _clear_of_filter(g, j, flt)
        if how == "neg-push":
            _clear_of_zero(g)
        good.append(g)
    pool = [good[0], bad, good[1]]
    if rng.random() < 0.4:
        pool.append(out_of_domain(rng, spec))
        if "matrix" in pool[-1]:
            pool[-1]["criteria"] = CRITS[: len(pool[-1]["matrix"][0])]
    # the probe, [the failing call, the probe] once or twice, other members around
    hist = [1]
    if rng.random() < 0.5:
        hist = [rng.randrange(len(pool))] + hist
    after = len(hist)  # a probe right after the failing call
    tail = [2] + [rng.choice([1, 2, len(pool) - 1]) for _ in range(rng.randint(0, 1))]  # another accepted matrix, always
    rng.shuffle(tail)
    hist = hist + tail
    positions = {after, len(hist)}
    if rng.random() < 0.7:
        positions.add(0)
    return {"kind": "hist", "spec": spec, "pool": pool, "hist": hist, "probe": 0, "positions": sorted(positions),
            "reuse_dm": rng.random() < 0.5, "midway": how}


def random_user_spec(rng):
    cls = rng.choice(["UserAgg", "PlainAgg", "UserScale", "PlainTrans"])
    kw = {}
    if cls == "UserAgg" and rng.random() < 0.7:
        kw = {"alpha": rng.choice([1.0, 0.5, 3.0]), "flip": rng.random() < 0.3}
    if cls == "UserScale" and rng.random() < 0.7:
        kw = {"k": rng.choice([2.0, 0.5]), "shift": rng.choice([0.0, 1.0])}
    return {"k": "user", "cls": cls, "kw": kw}


# ----------------------------------------------------------------------------- construction histories
# "Two method objects built with the same parameters behave identically" - whatever was built BEFORE them: an object, then
# objects of the same class with OTHER parameters (constructor or .copy()), then an object with the first one's parameters
# again.  A default that is shared between instances (a mutable default argument, the dict of a decorator's closure, a
# class attribute written by __init__) shows in the last object only.

# hyper-parameters declared by the decorated classes of _user_classes(): name -> (declared default, other values)
USER_HP = {
    "UserAgg": {"alpha": (1.0, [0.5, 3.0, 2.0, -1.0]), "flip": (False, [True])},
    "UserScale": {"k": (2.0, [0.5, 4.0, -1.0]), "shift": (0.0, [1.0, -0.25])},
}
REQUIRED_ARGS = ("target", "criteria_filters")  # constructor arguments without a default
PARAM_AGGS = ["TOPSIS", "ELECTRE1", "ELECTRE2", "SIMUS"]


def _ctor_kw(spec):
    """the keyword arguments a spec hands to the constructor (None: not a plain keyword construction)"""
    k = spec["k"]
    if k == "agg":
        return {a: v for a, v in spec["spec"].items() if a != "name"}
    if k in ("tr", "user"):
        return _dekw(spec.get("kw", {}))
    return None


def _hp_classes():
    """(kind, class) of every class of the specs whose constructor takes hyper-parameters"""
    import random

    probe = random.Random(0)
    out = [("user", c) for c in USER_HP]
    out += [("tr", c) for c in TR if any(random_tr_spec(probe, c)["kw"] for _ in range(4))]
    out += [("agg", n) for n in PARAM_AGGS]
    out += [("ric", "RankInvariantChecker")]
    return out


def _ctor_base(rng, kind, cls):
    """the parameters of the object that is built first and last: the declared defaults (nothing given) half of the time
    where the constructor allows it, a random subset of the hyper-parameters otherwise"""
    if kind == "user":
        hp = USER_HP[cls]
        given = rng.sample(sorted(hp), rng.randint(1, len(hp))) if rng.random() < 0.5 else []
        return {"k": "user", "cls": cls, "kw": {a: rng.choice([hp[a][0]] + hp[a][1]) for a in given}}
    if kind == "tr":
        spec = random_tr_spec(rng, cls)
        optional = [a for a in spec["kw"] if a not in REQUIRED_ARGS]
        drop = optional if rng.random() < 0.5 else rng.sample(optional, rng.randint(0, len(optional)))
        spec["kw"] = {a: v for a, v in spec["kw"].items() if a not in drop}
        return spec
    if kind == "agg":
        if rng.random() < 0.5:
            return {"k": "agg", "spec": {"name": cls}}
        return {"k": "agg", "spec": M.random_spec(rng, [cls])}
    return random_ric_spec(rng)


def _ctor_other(rng, kind, cls, base):
    """a spec of the same class whose given hyper-parameters differ from `base`'s (None if none was drawn)"""
    for _ in range(20):
        if kind == "user":
            hp = USER_HP[cls]
            given = rng.sample(sorted(hp), rng.randint(1, len(hp)))
            spec = {"k": "user", "cls": cls, "kw": {a: rng.choice(hp[a][1]) for a in given}}  # non-default values only
        elif kind == "tr":
            spec = random_tr_spec(rng, cls)
        elif kind == "agg":
            spec = {"k": "agg", "spec": M.random_spec(rng, [cls])}
        else:
            spec = random_ric_spec(rng)
            spec["dmaker"] = base["dmaker"]
        a, b = _ctor_kw(spec), _ctor_kw(base)
        if (a is None and spec != base) or (a is not None and a and any(b.get(x, "<default>") != v for x, v in a.items())):
            return spec
    return None


def gen_ctor_case(rng, kind, cls):
    base = _ctor_base(rng, kind, cls)
    between = []
    for _ in range(rng.choice([1, 1, 2, 3])):
        o = _ctor_other(rng, kind, cls, base)
        if o is not None:
            between.append({"spec": o, "via": "new"})
    first = rng.random() < 0.8 or not between
    if first and _ctor_kw(base) is not None:
        for b in between:
            if rng.random() < 0.4:
                b["via"] = "copy"  # first.copy(hp=...)
    wrap = None
    if rng.random() < 0.4 and kind != "ric":
        if spec_family(base) == "agg" or (kind == "user" and "Agg" in cls):
            wrap = {"pre": [{"k": "tr", "cls": "SumScaler", "kw": {"target": rng.choice(["both", "weights"])}}], "post": None,
                    "op": "evaluate"}
        else:
            wrap = {"pre": [], "post": {"k": "agg", "spec": rng.choice([{"name": "TOPSIS", "metric": "euclidean"}, {"name": "RatioMOORA"}])},
                    "op": rng.choice(["evaluate", "transform"])}
    mc = in_domain(rng, base, n=rng.randint(3, 4) if spec_family(base) == "filter" else None)
    if spec_family(base) == "filter":
        mc["criteria"] = CRITS[: len(mc["matrix"][0])]
    return {"kind": "ctor", "spec": base, "first": first, "between": between, "wrap": wrap, "mc": mc,
            "call_between": rng.random() < 0.7}


def _wrapped(obj, op, wrap):
    """the object alone, or as a step of a new pipeline"""
    if not wrap:
        return obj, op
    from skcriteria.pipeline import mkpipe

    with M.quiet():
        steps = [build(s)[0] for s in wrap["pre"]] + [obj] + ([build(wrap["post"])[0]] if wrap["post"] else [])
        return mkpipe(*steps), wrap["op"]


def _repr(v):
    import re

    return re.sub(r" at 0x[0-9a-fA-F]+", "", repr(v))[:80]


def _params(obj):
    """{parameter: [digest, short repr]} of what the object says it was built with"""
    try:
        return {k: [digest(v), _repr(v)] for k, v in sorted(obj.get_parameters().items())}
    except Exception as e:
        return {"<get_parameters>": [type(e).__name__, str(e)[:80]]}


def _declared_defaults(obj, given):
    """the parameters that were NOT given, with the default the constructor's signature declares and what the object holds:
    {parameter: [declared, held, equal?]}; equal is Python's `==` (a constructor may normalise (0, 1) to (0.0, 1.0)) or
    identical bits (nan)"""
    import inspect

    out = {}
    try:
        sig = inspect.signature(type(obj).__init__)
        held = obj.get_parameters()
    except Exception:
        return out
    for name, p in sig.parameters.items():
        if name in held and name not in given and p.default is not inspect.Parameter.empty:
            try:
                eq = digest(p.default) == digest(held[name]) or bool(p.default == held[name])
            except Exception:
                eq = False
            out[name] = [_repr(p.default), _repr(held[name]), eq]
    return out


def ctor_reference(case):
    """a fresh process in which the object under test is the ONLY object of its class ever built"""
    obj, op = build(case["spec"])
    given = _ctor_kw(case["spec"])
    target, top = _wrapped(obj, op, case.get("wrap"))
    return {"params": _params(obj), "declared": _declared_defaults(obj, given) if given is not None else {},
            "out": call(target, top, mk_input(case["mc"]))}


def ctor_sequence(case):
    """[an object with the parameters under test], objects of the same class with OTHER parameters, then the object under test"""
    spec, mc, wrap = case["spec"], case["mc"], case.get("wrap")
    res = {"between": []}
    obj1 = None
    if case["first"]:
        obj1, op1 = build(spec)
        res["params1"] = _params(obj1)
        res["out1"] = call(*_wrapped(obj1, op1, wrap), mk_input(mc))
    for b in case["between"]:
        with M.quiet():
            if b["via"] == "copy":
                ob, opb = obj1.copy(**_ctor_kw(b["spec"])), op1
            else:
                ob, opb = build(b["spec"])
        res["between"].append({"params": _params(ob), "out": call(ob, opb, mk_input(mc)) if case.get("call_between") else None})
    obj3, op3 = build(spec)
    res["params3"] = _params(obj3)
    given = _ctor_kw(spec)
    res["declared3"] = _declared_defaults(obj3, given) if given is not None else {}
    res["out3"] = call(*_wrapped(obj3, op3, wrap), mk_input(mc))
    if obj1 is not None:  # the objects built earlier are what they were
        res["params1_again"] = _params(obj1)
        res["out1_again"] = call(*_wrapped(obj1, op1, wrap), mk_input(mc))
    return res


# ----------------------------------------------------------------------------- streams of throw-away matrices
# The matrices of a `hist` case all live until the run ends, so nothing that identifies a matrix by something RECYCLABLE (its
# id(), the id of one of its arrays, a weak reference's slot) can ever confuse two of them.  Here one long-lived object is fed
# many small matrices of different content that nobody keeps: built, passed to the object, dropped.

STREAM_FIXED = [
    {"k": "pipe", "steps": [{"k": "tr", "cls": "SumScaler", "kw": {"target": "both"}}, {"k": "agg", "spec": {"name": "WSM"}}],
     "op": "evaluate"},
    {"k": "pipe", "steps": [{"k": "tr", "cls": "MinMaxScaler", "kw": {"target": "matrix"}},
                            {"k": "agg", "spec": {"name": "TOPSIS", "metric": "euclidean"}}], "op": "evaluate"},
    {"k": "pipe", "steps": [{"k": "tr", "cls": "InvertMinimize", "kw": {}}, {"k": "tr", "cls": "VectorScaler", "kw": {"target": "matrix"}},
                            {"k": "tr", "cls": "SumScaler", "kw": {"target": "weights"}},
                            {"k": "agg", "spec": {"name": "TOPSIS", "metric": "euclidean"}}], "op": "evaluate"},
    {"k": "pipe", "steps": [{"k": "tr", "cls": "NegateMinimize", "kw": {}}, {"k": "tr", "cls": "StandarScaler", "kw": {"target": "matrix"}},
                            {"k": "agg", "spec": {"name": "RatioMOORA"}}], "op": "transform"},
]
STREAM_CHEAP_TR = [c for c in TR if c not in ("IterativeImputer", "KNNImputer")]
STREAM_DROPS = ["del", "del+gc", "inline", "rebind"]


def gen_stream_case(rng, t):
    which = t % 8
    if which < len(STREAM_FIXED):
        spec = json.loads(json.dumps(STREAM_FIXED[which]))
        if rng.random() < 0.3:
            spec["op"] = "transform" if spec["op"] == "evaluate" else "evaluate"
        n = rng.randint(200, 300)
    elif which == 4:
        spec = random_pipe_spec(rng)
        for _ in range(20):
            if not any(s.get("cls") in ("IterativeImputer", "KNNImputer") for s in spec["steps"]):
                break
            spec = random_pipe_spec(rng)
        n = rng.randint(100, 200)
    elif which == 5:
        spec = random_tr_spec(rng, rng.choice(STREAM_CHEAP_TR))
        n = rng.randint(100, 200)
    elif which == 6:
        spec = {"k": "agg", "spec": M.random_spec(rng, [a for a in AGG_NAMES if a != "SIMUS"])}
        n = rng.randint(100, 200)
    else:
        spec = random_user_spec(rng)
        n = rng.randint(100, 200)
    shape = [rng.randint(3, 5), rng.randint(2, 4)] if rng.random() < 0.6 else None
    if spec_family(spec) == "filter" and shape:
        shape[1] = max(shape[1], 3)
    if spec_family(spec) == "imputer" and shape:
        shape[0] = max(shape[0], 4)
    probe_at = sorted({0, n} | {rng.randrange(1, n) for _ in range(rng.randint(1, 3))})
    return {"kind": "stream", "spec": spec, "n": n, "mseed": rng.randint(0, 2 ** 31 - 1), "shape": shape,
            "drop": STREAM_DROPS[t % len(STREAM_DROPS)] if t < 2 * len(STREAM_DROPS) else rng.choice(STREAM_DROPS),
            "ood_rate": rng.choice([0.0, 0.05, 0.1]), "probe_at": probe_at}


def stream_matrix(case, k):
    """matrix #k of a stream (k = -1: the probe, which the caller keeps): a function of the case alone"""
    import random

    rng = random.Random(case["mseed"] * 1000003 + k + 1)
    spec, shape = case["spec"], case.get("shape")
    if k >= 0 and rng.random() < case.get("ood_rate", 0.0):
        mc = out_of_domain(rng, spec)
    else:
        mc = in_domain(rng, spec, m=shape[0], n=shape[1]) if shape else in_domain(rng, spec)
    if "matrix" in mc and shape and "ood" not in mc:
        # the same labels on every matrix of a fixed-shape stream: an output that belongs to ANOTHER matrix looks valid
        mc["criteria"] = CRITS[: len(mc["matrix"][0])]
        mc["alternatives"] = ["A%d" % i for i in range(len(mc["matrix"]))]
    return mc


def run_stream(case):
    """ONE object fed matrix after matrix; no matrix but the probe outlives its call"""
    import gc

    obj, op = build(case["spec"])
    mats = [stream_matrix(case, k) for k in range(case["n"])]  # plain lists of numbers; the DecisionMatrix objects are made below
    probe = mk_input(stream_matrix(case, -1))
    at, mode = set(case["probe_at"]), case["drop"]
    outs, probes = [], {}
    gc.collect()
    gc.freeze()  # what exists now is not scanned again: a full collection per call stays cheap
    dm = None
    for k, mc in enumerate(mats):
        if k in at:
            probes[str(k)] = call(obj, op, probe)
        if mode == "inline":
            outs.append(call(obj, op, mk_input(mc)))
        elif mode == "rebind":
            dm = mk_input(mc)  # the previous matrix dies when the name is bound again
            outs.append(call(obj, op, dm))
        else:
            dm = mk_input(mc)
            outs.append(call(obj, op, dm))
            del dm
            if mode == "del+gc":
                gc.collect()
    probes[str(len(mats))] = call(obj, op, probe)
    return outs, probes


IMPUTERS = ("SimpleImputer", "IterativeImputer", "KNNImputer")
# IterativeImputer configurations in which scikit-learn really draws from the generator made of `random_state`
DRAWING = [{"sample_posterior": True}, {"imputation_order": "random"},
           {"sample_posterior": True, "imputation_order": "random", "max_iter": 3}]


def _draws(spec):
    """does this spec hold a method that takes a seed AND consumes random numbers when called?"""
    k = spec["k"]
    if k == "ric":
        return True
    if k == "pipe":
        return any(_draws(s) for s in spec["steps"])
    if k == "tr" and spec["cls"] == "IterativeImputer":
        kw = spec.get("kw", {})
        return bool(kw.get("sample_posterior")) or kw.get("imputation_order") == "random"
    return False


def seeded_specs(rng):
    """every method that takes a `random_state`, with an integer seed, in a parameterisation that really consumes random
    numbers at every call: alone and as a step of a pipeline (RankInvariantChecker always draws its noise: random_ric_spec)"""
    def imp(kw):
        return {"k": "tr", "cls": "IterativeImputer", "kw": {"random_state": rng.randint(0, 2 ** 31 - 1), **kw}}

    out = [imp(kw) for kw in DRAWING]
    out.append({"k": "pipe", "steps": [imp(rng.choice(DRAWING)), {"k": "agg", "spec": {"name": "TOPSIS", "metric": "euclidean"}}],
                "op": "evaluate"})
    out.append({"k": "pipe", "steps": [imp(rng.choice(DRAWING)), random_tr_spec(rng, rng.choice(["VectorScaler", "MaxAbsScaler"])),
                                       {"k": "agg", "spec": {"name": "RatioMOORA"}}], "op": "transform"})
    return out


def spec_round(rng):
    """one spec of every class / variant (a full round); shuffled"""
    out = seeded_specs(rng)
    for name in AGG_NAMES:
        out.append({"k": "agg", "spec": M.random_spec(rng, [name])})
    for m in M.TOPSIS_METRICS:
        out.append({"k": "agg", "spec": {"name": "TOPSIS", "metric": m}})
    for cls in TR:
        out.append(random_tr_spec(rng, cls))
    for _ in range(6):
        out.append(random_pipe_spec(rng))
    for _ in range(4):
        out.append(random_user_spec(rng))
    for _ in range(4):
        out.append(random_ric_spec(rng))
    rng.shuffle(out)
    return out


# ----------------------------------------------------------------------------- pools of inputs


def _is_simus(spec):
    return spec["k"] == "agg" and spec["spec"]["name"] == "SIMUS"


def _base_agg(spec):
    """the aggregation spec that decides the numeric domain"""
    if spec["k"] == "agg":
        return spec["spec"]
    if spec["k"] == "pipe":
        return spec["steps"][-1]["spec"]
    if spec["k"] == "ric":
        return _base_agg(spec["dmaker"])
    return {"name": "TOPSIS"}


def in_domain(rng, spec, m=None, n=None):
    fam = spec_family(spec)
    small = _is_simus(spec) or fam == "rank_reversal"
    kw = dict(max_m=5 if small else 9, max_n=3 if small else 5, ties=rng.choice([0.0, 0.3]), dups=0.0 if fam == "rank_reversal" else 0.15)
    if fam == "rank_reversal":
        # two equal rows leave the checker no room to worsen one of them (refused since fix F8; an endless loop before it)
        kw.update(ties=0.0, min_n=2)
    pipe_imputer = fam == "pipeline" and any(s.get("cls") in IMPUTERS for s in spec["steps"])
    if pipe_imputer:
        kw["min_m"] = 3
        kw["min_n"] = 2
    if m:
        kw["m"] = m
    if n:
        kw["n"] = n
    if fam in ("agg", "pipeline", "rank_reversal", "extend"):
        mc = M.in_domain_dm(rng, _base_agg(spec), **kw)
    else:
        kw.setdefault("min_m", 2)
        if fam == "imputer":
            kw["min_m"] = 3
            kw["min_n"] = 2
        mc = G.dm_case(rng, positive=fam not in ("push", "inverter") or rng.random() < 0.5, **kw)
    if fam == "filter" or (fam == "pipeline" and rng.random() < 0.5):
        mc["criteria"] = CRITS[: len(mc["criteria"])]
    if fam == "imputer" or pipe_imputer:
        rows, cols = len(mc["matrix"]), len(mc["matrix"][0])
        for _ in range(rng.randint(1, max(1, rows * cols // 4))):
            i, j = rng.randrange(rows), rng.randrange(cols)
            if sum(1 for r in mc["matrix"] if r[j] is not None) > 2:
                mc["matrix"][i][j] = None
        if fam != "imputer" or _draws(spec):
            # an imputer that draws random numbers needs something to impute, in two criteria for a random ORDER to exist
            for j in rng.sample(range(cols), min(2, cols)):
                if all(r[j] is not None for r in mc["matrix"]) and rows > 2:
                    mc["matrix"][rng.randrange(rows)][j] = None
    return mc


def out_of_domain(rng, spec):
    kind = rng.choice(["garbage", "garbage", "neg", "zero", "allmin", "nan", "nancol", "missing", "onerow"])
    if kind == "garbage":
        return {"garbage": rng.choice(["none", "str", "ndarray", "int", "dict"])}
    mc = in_domain(rng, spec)
    mx = mc["matrix"]
    rows, cols = len(mx), len(mx[0])
    if kind == "neg":
        for _ in range(rng.randint(1, rows)):
            i, j = rng.randrange(rows), rng.randrange(cols)
            if mx[i][j] is not None:
                mx[i][j] = -abs(mx[i][j]) - 0.5
    elif kind == "zero":
        for _ in range(rng.randint(1, rows)):
            mx[rng.randrange(rows)][rng.randrange(cols)] = 0.0
    elif kind == "allmin":
        mc["objectives"] = [-1] * cols
    elif kind == "nan":
        mx[rng.randrange(rows)][rng.randrange(cols)] = None
    elif kind == "nancol":
        j = rng.randrange(cols)
        for r in mx:
            r[j] = None
    elif kind == "missing":
        mc["criteria"] = ["Z9", "Z8", "Z7", "Z6", "Z5", "Z4"][:cols]
    elif kind == "onerow":
        mc["matrix"] = mx[:1]
        mc["alternatives"] = mc["alternatives"][:1]
    mc["ood"] = kind
    return mc


def _moved(rng, k):
    """a permutation of range(k) that is not the identity (k >= 2): a rotation (every position shifts) or a shuffle"""
    if k < 2:
        return list(range(k))
    if rng.random() < 0.5:
        r = rng.randrange(1, k)
        return [(i + r) % k for i in range(k)]
    while True:
        p = list(range(k))
        rng.shuffle(p)
        if p != list(range(k)):
            return p


def same_labels_elsewhere(rng, mc, wide_ok=True):
    """a matrix that carries the SAME criterion and alternative names as `mc` at DIFFERENT positions:
      permute  the same problem listed in another order (every name keeps its data, objective and weight);
      relabel  the same numbers, the names attached to other columns / rows;
      shifted  a new criterion in front: every name one column further (another shape).
    Whatever a method remembers about an earlier matrix under a name (a column position, a fitted value) is wrong for this one."""
    out = {k: (list(v) if isinstance(v, list) else v) for k, v in mc.items()}
    mx = [list(r) for r in mc["matrix"]]
    rows, cols = len(mx), len(mx[0])
    how = rng.choice(["permute", "permute", "relabel", "shifted" if wide_ok else "permute"])
    if how == "permute":
        tau = _moved(rng, cols)
        sg = _moved(rng, rows) if rng.random() < 0.7 else list(range(rows))
        out["matrix"] = [[mx[i][j] for j in tau] for i in sg]
        for key in ("objectives", "weights", "criteria"):
            out[key] = [mc[key][j] for j in tau]
        out["alternatives"] = [mc["alternatives"][i] for i in sg]
    elif how == "relabel":
        tau, sg = _moved(rng, cols), _moved(rng, rows)
        out["matrix"] = mx
        out["criteria"] = [mc["criteria"][j] for j in tau]
        out["alternatives"] = [mc["alternatives"][i] for i in sg]
    else:
        fam = mc.get("family", "dyadic")
        pos = all(v is None or v > 0 for r in mx for v in r)
        out["matrix"] = [[G.value(rng, fam, pos)] + r for r in mx]
        out["objectives"] = [rng.choice(list(mc["objectives"]))] + list(mc["objectives"])
        out["weights"] = [rng.choice(list(mc["weights"]))] + list(mc["weights"])
        out["criteria"] = [next(c for c in ["X0", "X1", "X2", "X3", "X4", "X5", "X6"] if c not in mc["criteria"])] + list(mc["criteria"])
    out["pair"] = "b:" + how
    return out


def make_pool(rng, spec, size, ood_rate=0.3, pair_rate=0.6):
    pool = _make_pool(rng, spec, size, ood_rate)
    # a pair with identical labels at different positions; always for the methods whose parameters name criteria
    fam = spec_family(spec)
    names_criteria = fam == "filter" or (fam == "pipeline" and any(TR.get(s.get("cls"), ("", ""))[1] == "filter" for s in spec["steps"]))
    good = [p for p in pool if "ood" not in p and "garbage" not in p and len(p["matrix"][0]) >= 2]
    if good and (names_criteria or rng.random() < pair_rate):
        a = rng.choice(good)
        a["pair"] = "a"
        small = _is_simus(spec) or fam == "rank_reversal"
        pool.insert(rng.randrange(len(pool) + 1), same_labels_elsewhere(rng, a, wide_ok=not small))
    return pool


def _make_pool(rng, spec, size, ood_rate=0.3):
    first = in_domain(rng, spec)
    pool = [first]
    # same shape, different values: a memo keyed by shape (or a fitted estimator reused) shows here
    pool.append(in_domain(rng, spec, m=len(first["matrix"]), n=len(first["matrix"][0])))
    if spec_family(spec) == "filter":
        pool[1]["criteria"] = list(first["criteria"])
    while len(pool) < size:
        pool.append(out_of_domain(rng, spec) if rng.random() < ood_rate else in_domain(rng, spec))
    if not any("ood" in p or "garbage" in p for p in pool):
        pool[-1] = out_of_domain(rng, spec)
    order = list(range(len(pool)))
    rng.shuffle(order)
    return [pool[i] for i in order]


def mk_input(mc):
    """the argument of the call: a DecisionMatrix, or something that is not one"""
    if "garbage" in mc:
        return {"none": None, "str": "not a matrix", "ndarray": np.ones((2, 2)), "int": 3, "dict": {"matrix": [[1.0]]}}[mc["garbage"]]
    import skcriteria as skc

    mx = np.array([[np.nan if v is None else v for v in r] for r in mc["matrix"]], dtype=float)
    with M.quiet():
        return skc.mkdm(mx, list(mc["objectives"]), weights=np.array(mc["weights"], dtype=float),
                        alternatives=list(mc["alternatives"]), criteria=list(mc["criteria"]))


# ----------------------------------------------------------------------------- canonical form of outputs and of state


def _sha(b):
    return hashlib.sha1(b).hexdigest()


def canon(x, depth=0, path=()):
    """a JSON-able value that is equal for two objects iff they agree bit for bit on everything reachable"""
    import collections.abc as cabc

    import pandas as pd

    if x is None or isinstance(x, (bool, str)):
        return x
    if isinstance(x, int):
        return x
    if isinstance(x, float):
        return ["f", struct.pack("<d", x).hex()]
    if isinstance(x, complex):
        return ["c", struct.pack("<dd", x.real, x.imag).hex()]
    if isinstance(x, bytes):
        return ["b", _sha(x)]
    if depth > 12 or id(x) in path:
        return ["...", type(x).__name__]
    path = path + (id(x),)
    d = depth + 1
    if isinstance(x, np.generic):
        return ["npg", x.dtype.str, x.tobytes().hex()]
    if isinstance(x, np.ndarray):
        if x.dtype == object:
            return ["ndo", list(x.shape), [canon(v, d, path) for v in x.ravel().tolist()]]
        return ["nd", x.dtype.str, list(x.shape), _sha(np.ascontiguousarray(x).tobytes())]
    if isinstance(x, pd.Series):
        return ["series", canon(x.index, d, path), str(x.dtype), canon(x.to_numpy(), d, path), canon(x.name, d, path)]
    if isinstance(x, pd.DataFrame):
        return ["frame", canon(x.index, d, path), canon(x.columns, d, path),
                [canon(x.iloc[:, j].to_numpy(), d, path) for j in range(x.shape[1])]]
    if isinstance(x, pd.Index):
        return ["index", str(x.dtype), canon(np.asarray(x.to_numpy(), dtype=object), d, path), [canon(n, d, path) for n in x.names]]
    if isinstance(x, np.random.Generator):
        return ["rng", canon(x.bit_generator.state, d, path)]
    if isinstance(x, np.random.RandomState):
        return ["rstate", canon(x.get_state(legacy=False), d, path)]
    mod = type(x).__module__ or ""
    if mod.startswith("skcriteria"):
        from skcriteria.agg import ResultABC
        from skcriteria.cmp import RanksComparator
        from skcriteria.core.data import DecisionMatrix
        from skcriteria.core.methods import SKCMethodABC

        if isinstance(x, DecisionMatrix):
            return ["dm", canon(x.matrix, d, path), canon(x.iobjectives.to_numpy(), d, path), canon(x.weights.to_numpy(), d, path),
                    canon(np.asarray(x.alternatives, dtype=object), d, path), canon(np.asarray(x.criteria, dtype=object), d, path),
                    [str(t) for t in x.dtypes.to_numpy()]]
        if isinstance(x, ResultABC):
            return ["result", type(x).__name__, x.method, canon(np.asarray(x.alternatives, dtype=object), d, path),
                    canon(x.values, d, path), canon(dict(x.e_.items()), d, path)]
        if isinstance(x, RanksComparator):
            return ["rcmp", [[n, canon(r, d, path)] for n, r in x.ranks]]
        if isinstance(x, SKCMethodABC):
            return ["method", type(x).__qualname__, canon(vars(x), d, path)]
    if isinstance(x, cabc.Mapping):
        items = [[k if isinstance(k, str) else repr(canon(k, d, path)), canon(v, d, path)] for k, v in x.items()]
        return ["map", type(x).__name__, sorted(items, key=lambda kv: kv[0])]
    if isinstance(x, (list, tuple)):
        return [type(x).__name__, [canon(v, d, path) for v in x]]
    if isinstance(x, (set, frozenset)):
        return ["set", sorted(json.dumps(canon(v, d, path), sort_keys=True) for v in x)]
    if isinstance(x, type):
        return ["type", x.__module__, x.__qualname__]
    if callable(x) and hasattr(x, "__name__"):
        return ["fn", getattr(x, "__module__", None), getattr(x, "__qualname__", x.__name__)]
    if mod.startswith("pulp"):
        return ["pulp", type(x).__name__, str(x)]
    if hasattr(x, "__dict__"):
        return ["obj", type(x).__qualname__, canon(vars(x), d, path)]
    if hasattr(x, "__slots__"):
        return ["slots", type(x).__qualname__, [[s, canon(getattr(x, s, None), d, path)] for s in x.__slots__]]
    import re

    return ["repr", re.sub(r"0x[0-9a-fA-F]+", "0x", repr(x))]


def digest(x):
    return _sha(json.dumps(canon(x), sort_keys=True, default=repr).encode())


def summary(x):
    """small readable excerpt of an output (for the report; the comparison uses the digest)"""
    try:
        from skcriteria.agg import ResultABC
        from skcriteria.cmp import RanksComparator
        from skcriteria.core.data import DecisionMatrix

        if isinstance(x, ResultABC):
            e = {k: (np.asarray(v).ravel()[:6].tolist() if isinstance(v, np.ndarray) and v.dtype != object else type(v).__name__)
                 for k, v in list(x.e_.items())[:3]}
            return {"t": type(x).__name__, "values": x.values.tolist(), "extra": e}
        if isinstance(x, DecisionMatrix):
            return {"t": "DecisionMatrix", "alternatives": [str(a) for a in x.alternatives],
                    "matrix": x.matrix.to_numpy().ravel()[:12].tolist(), "weights": x.weights.to_numpy().tolist()}
        if isinstance(x, RanksComparator):
            out = []
            for n, r in x.ranks:
                nz = r.e_.rrt1.noise
                out.append([n, r.values.tolist(), None if nz is None else np.asarray(nz).tolist()])
            return {"t": "RanksComparator", "ranks": out[:4]}
    except Exception as e:  # the excerpt must never hide a result
        return {"t": type(x).__name__, "summary_error": repr(e)}
    return {"t": type(x).__name__}


def call(obj, op, arg, kw=None):
    """one call: ('ok', digest, summary) | ('err', exception class name, message); kw: per-call arguments (see _call_kwargs)"""
    extra = _call_kwargs(obj, op, kw)
    with M.quiet():
        try:
            out = getattr(obj, op)(arg, **extra)
        except Exception as e:
            return {"err": type(e).__name__, "msg": str(e)[:160]}
        return {"ok": digest(out), "sum": C.jsonable(summary(out))}


def _same(a, b):
    if "err" in a or "err" in b:
        return a.get("err") == b.get("err")
    return a["ok"] == b["ok"]


_SKIP_CLASS_ATTR = (staticmethod, classmethod, property)


def state_fp(obj):
    """{where: digest} over vars(obj), the non-callable attributes of its classes and the module-level
    containers of every loaded skcriteria module"""
    fp = {}
    for k, v in vars(obj).items():
        fp["vars." + k] = digest(v)
    for c in type(obj).__mro__:
        if c is object or not (c.__module__ or "").startswith(("skcriteria", "props.", "__main__", "c20")):
            continue
        for k, v in vars(c).items():
            if k.startswith("__") or callable(v) or isinstance(v, _SKIP_CLASS_ATTR) or k == "_abc_impl":
                continue
            fp[f"class.{c.__qualname__}.{k}"] = digest(v)
    for name, mod in list(sys.modules.items()):
        if mod is None or not name.startswith("skcriteria"):
            continue
        for k, v in list(vars(mod).items()):
            if k.startswith("__"):
                continue
            if isinstance(v, (list, dict, set, bytearray)):
                fp[f"module.{name}.{k}"] = digest(v)
    return fp


def _fp_changes(a, b):
    return sorted(k for k in set(a) | set(b) if a.get(k) != b.get(k))


_PRELOADED = False
CHILD_TIMEOUT = 120  # seconds for one run in a child process


def preload():
    """import everything a call may need, WITHOUT calling any method: the process stays a pristine template from
    which every run is forked (a module-level memo, a class attribute or a process-wide random generator touched by
    one run can then never leak into the reference output of another)"""
    global _PRELOADED
    if _PRELOADED:
        return
    import importlib

    with M.quiet():
        import skcriteria  # noqa: F401
        from sklearn.experimental import enable_iterative_imputer  # noqa: F401

        for m in ("agg.electre", "agg.moora", "agg.similarity", "agg.simple", "agg.simus", "pipeline", "extend",
                  "cmp.ranks_rev.rank_inv_check", "utils.rank", "utils.lp"):
            importlib.import_module("skcriteria." + m)
        for mod, _ in TR.values():
            importlib.import_module("skcriteria.preprocessing." + mod)
        import sklearn.impute  # noqa: F401
        import sklearn.linear_model  # noqa: F401
        import sklearn.neighbors  # noqa: F401
        import sklearn.preprocessing  # noqa: F401
        _user_classes()
    _PRELOADED = True


def in_child(fn, *args):
    """run fn(*args) in a forked child of this (pristine) process; the JSON-able result comes back through a pipe"""
    import os
    import traceback

    r, w = os.pipe()
    pid = os.fork()
    if pid == 0:
        code = 0
        try:
            os.close(r)
            try:
                res = {"ok": fn(*args)}
            except BaseException as e:  # reported to the parent, which raises (a harness error, not a finding)
                res = {"child_error": f"{type(e).__name__}: {e}", "tb": traceback.format_exc()[-1500:]}
            with os.fdopen(w, "wb") as f:
                f.write(json.dumps(res).encode())
        except BaseException:
            code = 1
        finally:
            os._exit(code)
    os.close(w)
    import select
    import signal
    import time

    chunks, deadline = [], time.time() + CHILD_TIMEOUT
    with os.fdopen(r, "rb", buffering=0) as f:
        while True:
            left = deadline - time.time()
            ready = select.select([f], [], [], max(0.0, left))[0] if left > 0 else []
            if not ready:  # a call that does not return: never hang the check (exit 2, not a VIOLATION)
                os.kill(pid, signal.SIGKILL)
                os.waitpid(pid, 0)
                raise TimeoutError(f"a call did not return within {CHILD_TIMEOUT} s: {getattr(fn, '__name__', fn)} "
                                   f"{json.dumps(C.jsonable(args[0]))[:300]}")
            b = f.read(1 << 16)
            if not b:
                break
            chunks.append(b)
    data = b"".join(chunks)
    os.waitpid(pid, 0)
    if not data:
        raise RuntimeError("child process died without a result")
    res = json.loads(data)
    if "child_error" in res:
        raise RuntimeError("child process: " + res["child_error"] + "\n" + res.get("tb", ""))
    return res["ok"]


def fresh_output(spec, mc, kw=None):
    """what a new object in a new process returns for one matrix [called with the per-call arguments kw]"""
    obj, op = build(spec)
    return call(obj, op, mk_input(mc), kw)


def run_sequence(spec, pool, seq, inputs=None, track_state=True, kws=None):
    """one new object fed pool[i] for i in seq [call k with the per-call arguments kws[k]]; (outputs, state changes per call)"""
    if inputs is True:  # one DecisionMatrix object per pool member, handed to every call that uses that member
        inputs = {i: mk_input(pool[i]) for i in set(seq)}
    obj, op = build(spec)
    outs, changes = [], []
    fp = state_fp(obj) if track_state else None
    for k, i in enumerate(seq):
        arg = inputs[i] if inputs is not None else mk_input(pool[i])
        outs.append(call(obj, op, arg, kws[k] if kws else None))
        if track_state:
            fp2 = state_fp(obj)
            changes.append(_fp_changes(fp, fp2))
            fp = fp2
    return outs, changes


def final_kws(kws, positions):
    """the per-call arguments along final_sequence(hist, ...): the history's own, None (the plain call) for every probe"""
    out = []
    for i in range(len(kws) + 1):
        if i in positions:
            out.append(None)
        if i < len(kws):
            out.append(kws[i])
    return out


def final_sequence(hist, probe, positions):
    seq, at = [], []
    for i in range(len(hist) + 1):
        if i in positions:
            at.append(len(seq))
            seq.append(probe)
        if i < len(hist):
            seq.append(hist[i])
    return seq, at


# ----------------------------------------------------------------------------- per-call arguments of the public entry point
# "the same object on the same matrix gives identical output no matter which other calls it has processed before": some entry
# points take OPTIONAL, documented arguments besides the matrix (SIMUS.evaluate(dm, b=[...]) is the one in the library today).
# A history mixes calls that use them - valid values, values with holes, values that make the call raise - with plain calls;
# what is given to one call must not stick to the object.  The classes are found by inspecting the signatures of
# evaluate / transform of one object of every class the specs can build (and of every method class of the library, for the log).

KW_HOWS = ["vec", "vec-none", "short", "long", "scalar", "default"]
_KW_FOUND = None


def _user_spec_of(rng, cls):
    while True:
        s = random_user_spec(rng)
        if s["cls"] == cls:
            return s


def _pipe_spec_of(rng, op):
    s = random_pipe_spec(rng)
    s["op"] = op
    return s


def _kw_representatives():
    """[label, maker of a spec] - one for every class (and entry point) the specs of this module can build"""
    reps = [[n, (lambda rng, n=n: {"k": "agg", "spec": M.random_spec(rng, [n])})] for n in AGG_NAMES]
    reps += [[c, (lambda rng, c=c: random_tr_spec(rng, c))] for c in TR]
    reps += [[c, (lambda rng, c=c: _user_spec_of(rng, c))] for c in ("UserAgg", "PlainAgg", "UserScale", "PlainTrans")]
    reps += [["pipeline.evaluate", lambda rng: _pipe_spec_of(rng, "evaluate")], ["pipeline.transform", lambda rng: _pipe_spec_of(rng, "transform")],
             ["RankInvariantChecker", random_ric_spec]]
    return reps


def _extra_params(fn):
    """the OPTIONAL arguments a (not bound) evaluate / transform takes besides self and the matrix: [{name, default}]"""
    import inspect

    try:
        ps = list(inspect.signature(fn).parameters.values())
    except (TypeError, ValueError):
        return []
    return [{"name": p.name, "default": _repr(p.default)} for p in ps[2:]
            if p.kind in (p.POSITIONAL_OR_KEYWORD, p.KEYWORD_ONLY) and p.default is not inspect.Parameter.empty]


def _discover_call_args(specs):
    """(run in a child process) the per-call arguments of one object per spec, and of every method class of the library"""
    preload()
    per_spec = []
    for spec in specs:
        obj, op = build(spec)
        per_spec.append({"cls": type(obj).__module__ + "." + type(obj).__qualname__, "op": op, "params": _extra_params(getattr(type(obj), op))})
    from skcriteria.core.methods import SKCMethodABC

    lib, todo, seen = [], [SKCMethodABC], set()
    while todo:
        c = todo.pop()
        for sub in c.__subclasses__():
            if sub not in seen:
                seen.add(sub)
                todo.append(sub)
    for c in sorted(seen, key=lambda c: (c.__module__, c.__qualname__)):
        if not (c.__module__ or "").startswith("skcriteria"):
            continue
        for op in ("evaluate", "transform"):
            ps = _extra_params(getattr(c, op)) if callable(getattr(c, op, None)) else []
            if ps:
                lib.append({"cls": c.__module__ + "." + c.__qualname__, "op": op, "params": ps})
    return {"per_spec": per_spec, "library": lib}


def call_arg_classes():
    """[(label, spec maker, [parameter descriptions])] of the classes whose entry point takes optional per-call arguments"""
    global _KW_FOUND
    if _KW_FOUND is None:
        import random

        reps = _kw_representatives()
        probe = random.Random(0)
        found = in_child(_discover_call_args, [mk(probe) for _, mk in reps])
        _KW_FOUND = [(label, mk, d["params"]) for (label, mk), d in zip(reps, found["per_spec"]) if d["params"]]
        covered = {(d["cls"], d["op"]) for d in found["per_spec"] if d["params"]}
        missed = [d for d in found["library"] if (d["cls"], d["op"]) not in covered]
        C.log("C20 per-call arguments: " + ("; ".join(f"{label}({', '.join(p['name'] + '=' + p['default'] for p in ps)})" for label, _, ps in _KW_FOUND)
                                            or "no entry point takes any"))
        if missed:
            C.log("C20 per-call arguments of classes NO spec of this module builds (not exercised): " + json.dumps(missed)[:600])
    return _KW_FOUND


def _kw_value(rng, how, mc):
    """a value for a per-call argument of a call on the matrix `mc`.  Nothing is known about an argument but its name, so the
    values are the shapes a per-criterion setting can take: one number per criterion (taken from the criterion's own data:
    its max / min / mean, as is, halved or doubled), the same with holes (None = "choose yourself"), one entry too few / too
    many (the call is expected to raise), a single number, and the declared default passed explicitly"""
    mx = mc.get("matrix")
    n = len(mx[0]) if mx else 3

    def num(j):
        col = [r[j] for r in mx if r[j] is not None] if mx and j < n else []
        base = rng.choice([max(col), min(col), sum(col) / len(col)]) if col else rng.randint(1, 40) / 8
        return float(base * rng.choice([1.0, 1.0, 0.5, 2.0]))

    if how == "default":
        return {"how": how}
    if how == "scalar":
        return {"how": how, "v": num(rng.randrange(n))}
    if how == "short" and n < 2:
        how = "long"
    length = {"vec": n, "vec-none": n, "short": n - 1, "long": n + rng.randint(1, 2)}[how]
    v = [num(j) for j in range(length)]
    if how == "vec-none":
        for j in rng.sample(range(n), rng.randint(1, max(1, n - 1))):
            v[j] = None
    return {"how": how, "v": v, "as": rng.choice(["list", "list", "ndarray", "tuple"])}


def _call_kwargs(obj, op, kw):
    """JSON description of the per-call arguments -> the keyword arguments of the call"""
    if not kw:
        return {}
    import inspect

    out = {}
    for name, d in kw.items():
        if d["how"] == "default":
            p = inspect.signature(getattr(obj, op)).parameters.get(name)
            out[name] = None if p is None or p.default is inspect.Parameter.empty else p.default
            continue
        v = d["v"]
        if isinstance(v, list):
            if d.get("as") == "ndarray":
                v = np.array(v, dtype=object if any(x is None for x in v) else float)
            elif d.get("as") == "tuple":
                v = tuple(v)
            else:
                v = list(v)
        out[name] = v
    return out


def _show_kw(kw):
    return "(" + ", ".join(f"{k}=<declared default>" if d["how"] == "default" else f"{k}={d['v']}" for k, d in sorted((kw or {}).items())) + ")"


def gen_kwcall_case(rng, spec, params, first_how=None):
    """a history in which some calls use the optional per-call arguments `params` of the entry point and the others are plain;
    the probe is always called plainly: at the start (70%), right after the first call that uses them, at the end"""
    pool = make_pool(rng, spec, rng.randint(3, 5), ood_rate=0.2, pair_rate=0.0)
    good = [i for i, p in enumerate(pool) if "ood" not in p and "garbage" not in p]
    probe = rng.choice(good)
    ncrit = len(pool[probe]["matrix"][0])
    like = [i for i in good if i != probe and len(pool[i]["matrix"][0]) == ncrit]  # a value meant for them FITS the probe
    others = [i for i in range(len(pool)) if i != probe] or [probe]
    small = _is_simus(spec) or spec_family(spec) == "rank_reversal"
    n = rng.randint(3, 5 if small else 7)
    hist = [rng.choice(others) if rng.random() < 0.8 else probe for _ in range(n)]
    kws = [None] * n
    first = rng.randrange(n - 1)  # never the last one: a plain call of another matrix follows
    if like and rng.random() < 0.6:
        hist[first] = rng.choice(like)
    for k in range(n):
        if k == first or rng.random() < 0.4:
            kw = {}
            for p in params:
                if k == first and not kw:
                    how = first_how or rng.choice(KW_HOWS[:4])
                elif rng.random() < 0.7 or not kw:
                    how = rng.choice(KW_HOWS[:4] + KW_HOWS)
                else:
                    continue
                kw[p["name"]] = _kw_value(rng, how, pool[hist[k]])
            kws[k] = kw
    plain = [k for k in range(n) if kws[k] is None and hist[k] != probe]
    if not plain:
        k = rng.choice([k for k in range(n) if k != first])
        kws[k] = None
        if hist[k] == probe:
            hist[k] = rng.choice(others)
    positions = {first + 1, n}
    if rng.random() < 0.7:
        positions.add(0)
    if rng.random() < 0.4:
        positions.add(rng.randrange(n + 1))
    return {"kind": "hist", "spec": spec, "pool": pool, "hist": hist, "kws": kws, "probe": probe, "positions": sorted(positions),
            "reuse_dm": rng.random() < 0.5}


# ----------------------------------------------------------------------------- a refused call, then floating-point special cases
# "... or whether an earlier call raised": a call that FAILS on a documented out-of-domain input must leave nothing behind - not
# on the object and not in the PROCESS (numpy's floating-point error settings, the warnings filters, the process-wide random
# generators).  What a failed call leaves in the process is invisible to ordinary matrices; it shows in the calls whose
# legitimate computation goes through a floating-point special case (1/0 -> inf, 0/0 -> NaN, log of a denormal, overflow to
# inf) or through a third-party estimator.  One process: [the probes,] the refused call (once or twice), the probes - on the
# SAME object where it can take them and on FRESH objects; every probe output must be what a fresh process gives.  The calls
# of these runs are NOT wrapped one by one in np.errstate / warnings.catch_warnings (a wrapper around each call would restore
# whatever the call left behind): the caller's settings are made once, at the start of the process, in the run under test
# and in every reference process alike.

REFUSE_WAYS = {
    # way -> decision makers that refuse it (documented domain)
    "zero": ["WPM", "FMF", "MultiMOORA"],
    "neg": ["WSM", "WPM", "FMF", "MultiMOORA"],
    "allmin": ["WSM", "WPM"],
    "nan": ["WSM", "WPM", "FMF", "RatioMOORA", "RefPointMOORA"],
}
# how the offending value reaches the decision maker when it is the last step of a pipeline
REFUSE_PRE = {
    "zero": ["pass", "invert", "minmax"],
    "neg": ["pass", "invert", "negate", "standar"],
    "allmin": ["pass", "vector"],
    "nan": ["pass", "cenit"],
}
AMBIENT = ["default", "default", "default", "ignore", "warn-all"]
PROBE_FLAVOURS = ["div0-inf", "0/0-nan", "log-tiny", "overflow-inf", "iterative-imputer", "knn-imputer"]


def _tr(cls, **kw):
    return {"k": "tr", "cls": cls, "kw": kw}


def _agg(name, **kw):
    return {"k": "agg", "spec": {"name": name, **kw}}


def _pipe(*steps, op="evaluate"):
    return {"k": "pipe", "steps": list(steps), "op": op}


def _plain_dm(rng, m=None, n=None, mix=None, positive=True):
    mc = G.dm_case(rng, m=m or rng.randint(3, 5), n=n or rng.randint(2, 4), positive=positive, mix=mix, ties=0.0, dups=0.0)
    mc["int_matrix"] = False
    rows = mc["matrix"]
    if all(r == rows[0] for r in rows):
        rows[-1] = [v + 1 for v in rows[-1]]
    return mc


def _mixed_objectives(rng, mc):
    """at least one criterion to minimise and one to maximise (>= 2 criteria)"""
    o = mc["objectives"]
    if -1 not in o:
        o[rng.randrange(len(o))] = -1
    if 1 not in o:
        o[rng.randrange(len(o))] = 1
    return mc


def gen_refusal(rng, way, cls=None, piped=False, how=None):
    """one call that the library refuses: {spec, mc, kw, way, label}"""
    kw = None
    if way in REFUSE_WAYS:
        cls = cls or rng.choice(REFUSE_WAYS[way])
        pre = (how or rng.choice(REFUSE_PRE[way])) if piped else None
        mc = _plain_dm(rng, mix="max" if cls in ("WSM", "WPM") and pre not in ("invert", "negate") else None)
        mx, o = mc["matrix"], mc["objectives"]
        rows, cols = len(mx), len(mx[0])
        steps = []
        if pre in ("invert", "negate"):
            _mixed_objectives(rng, mc)
            steps = [_tr("InvertMinimize" if pre == "invert" else "NegateMinimize")]
        jmax = [j for j in range(cols) if o[j] == 1] or list(range(cols))
        if pre == "pass":
            steps = [_tr("SumScaler", target="weights")]
        if way == "zero":
            if pre == "minmax":
                steps = [_tr("MinMaxScaler", target="matrix")]  # the minimum of every criterion becomes an exact 0
            else:
                for _ in range(rng.randint(1, 2)):
                    mx[rng.randrange(rows)][rng.choice(jmax)] = 0.0
        elif way == "neg":
            if pre == "standar":
                steps = [_tr("StandarScaler", target="matrix")]
            elif pre != "negate":  # NegateMinimize makes the negative values itself
                i, j = rng.randrange(rows), rng.choice(jmax)
                mx[i][j] = -abs(mx[i][j]) - 0.5
        elif way == "allmin":
            for j in rng.sample(range(cols), rng.randint(1, cols)):
                o[j] = -1
            if pre == "vector":
                steps = [_tr("VectorScaler", target="matrix")]
        elif way == "nan":
            if pre == "cenit":
                steps = [_tr("CenitDistanceMatrixScaler")]  # a constant criterion: 0/0
                j, v = rng.randrange(cols), rng.randint(1, 40) / 8
                for r in mx:
                    r[j] = v
            else:
                mx[rng.randrange(rows)][rng.randrange(cols)] = None
        spec = _pipe(*steps, _agg(cls)) if piped else _agg(cls)
        label = f"{way} -> {cls}" + (f" behind {pre}" if piped else "")
    elif way == "shape":
        spec = cls or rng.choice([s for s in spec_round(rng) if s["k"] in (("agg", "tr") if piped else ("agg", "tr", "user"))])
        if piped and spec["k"] == "agg":
            spec = _pipe(_tr("SumScaler", target="weights"), spec)
        elif piped:
            spec = _pipe(spec, _agg("RatioMOORA"))
        if (how or rng.choice(["garbage", "onerow"])) == "garbage":
            mc = {"garbage": rng.choice(["none", "str", "ndarray", "int", "dict"])}
        else:
            mc = in_domain(rng, spec)
            mc["matrix"], mc["alternatives"], mc["ood"] = mc["matrix"][:1], mc["alternatives"][:1], "onerow"
        label = "shape:" + (mc.get("garbage") or "onerow") + " -> " + spec_name(spec)
    elif way == "short-b":
        spec = _agg("SIMUS", rank_by=rng.choice([1, 2]))
        mc = in_domain(rng, spec)
        kw = {"b": _kw_value(rng, how or rng.choice(["short", "short", "long"]), mc)}
        label = "b with one entry too few / too many -> SIMUS"
    elif way == "missing":
        cls = cls or rng.choice(["FilterGE", "FilterLT", "FilterIn", "Filter", "FilterNE"])
        spec = random_tr_spec(rng, cls)
        spec["kw"]["ignore_missing_criteria"] = False
        mc = _plain_dm(rng, n=3)
        mc["criteria"] = ["Z9", "Z8", "Z7"]
        if piped:
            spec = _pipe(spec, rng.choice([_agg("WPM"), _agg("WSM"), _agg("TOPSIS", metric="euclidean")]))
        label = "criterion named by the filter is missing -> " + spec_name(spec)
    else:
        raise KeyError(way)
    return {"spec": spec, "mc": mc, "kw": kw, "way": way, "label": label, "piped": bool(piped)}


def _special(rng, mc, flavour):
    """push an accepted matrix into a floating-point special case (in place)"""
    mx, o = mc["matrix"], mc["objectives"]
    rows, cols = len(mx), len(mx[0])
    if flavour == "zero-in-min":
        jm = [j for j in range(cols) if o[j] == -1]
        if jm:
            mx[rng.randrange(rows)][rng.choice(jm)] = 0.0
    elif flavour == "tiny":
        j = rng.randrange(cols)
        for r in mx:
            if r[j] is not None:
                r[j] = r[j] * rng.choice([1e-300, 1e-308, 1e-320, 1e-160])  # denormals included; never rounds to 0
    elif flavour == "huge":
        for j in rng.sample(range(cols), rng.randint(1, cols)):
            for r in mx:
                if r[j] is not None:
                    r[j] = r[j] * rng.choice([1e300, 2.0 ** 1018, 1e155, 3e307])
    elif flavour == "const":
        j, v = rng.randrange(cols), rng.choice([0.0, 1.0, 2.5])
        for r in mx:
            r[j] = v
    return mc


def same_object_probe(rng, fail):
    """a matrix for the object that has just refused a call: inside its domain, through a floating-point special case"""
    spec = fail["spec"]
    first = spec["steps"][0].get("cls") if spec["k"] == "pipe" else None
    if first == "InvertMinimize":
        flavour = rng.choice(["zero-in-min", "zero-in-min", "tiny", "huge"])
    elif _is_simus(spec):
        flavour = "plain"  # the LP solver writes to the terminal about a model with inf / nan coefficients
    else:
        flavour = rng.choice(["tiny", "huge", "const", "plain"])
    if first in ("InvertMinimize", "NegateMinimize"):
        mc = _mixed_objectives(rng, _plain_dm(rng))
    else:
        mc = in_domain(rng, spec, m=rng.randint(3, 5))
    if spec_family(spec) == "filter" or (spec["k"] == "pipe" and any(TR.get(s.get("cls"), ("", ""))[1] == "filter" for s in spec["steps"])):
        mc["criteria"] = CRITS[: len(mc["matrix"][0])]
    _special(rng, mc, flavour)
    return {"same": True, "spec": spec, "mc": mc, "flavour": "same-object:" + flavour}


def fp_probe(rng, flavour, global_rng_ok=True):
    """a FRESH object whose legitimate computation on its matrix goes through a floating-point special case / a third party"""
    if flavour == "div0-inf":
        # InvertMinimize on a criterion to minimise that holds a 0: 1/0 must give inf, which the ranking methods accept
        agg = rng.choice([_agg("WPM"), _agg("WPM"), _agg("WSM"), _agg("RatioMOORA"), _agg("FMF"), None])
        spec = _pipe(_tr("InvertMinimize"), agg) if agg else _tr("InvertMinimize")
        mc = _special(rng, _mixed_objectives(rng, _plain_dm(rng)), "zero-in-min")
    elif flavour == "0/0-nan":
        which = rng.choice(["cenit", "critic", "critic", "cenit-pipe", "vector0", "sum0"])
        mc = _plain_dm(rng, m=rng.randint(3, 5), n=rng.randint(2, 4), positive=which not in ("vector0", "sum0") or rng.random() < 0.5)
        j, v = rng.randrange(len(mc["matrix"][0])), (0.0 if which in ("vector0", "sum0") else rng.randint(1, 40) / 8)
        for r in mc["matrix"]:
            r[j] = v
        spec = {"cenit": _tr("CenitDistanceMatrixScaler"),
                "critic": _tr("CRITIC", correlation=rng.choice(["pearson", "spearman"]), scale=rng.random() < 0.7),
                "cenit-pipe": _pipe(_tr("CenitDistanceMatrixScaler"), _agg("TOPSIS", metric="euclidean"), op=rng.choice(["evaluate", "transform"])),
                "vector0": _tr("VectorScaler", target="matrix"), "sum0": _tr("SumScaler", target="matrix")}[which]
    elif flavour == "log-tiny":
        spec = rng.choice([_tr("EntropyWeighter"), _agg("WPM"), _agg("FMF"), _pipe(_tr("SumScaler", target="both"), _agg("WPM")),
                           _pipe(_tr("EntropyWeighter"), _agg("WSM"))])
        mc = _plain_dm(rng, mix="max" if spec != _agg("FMF") else None)
        for _ in range(rng.randint(1, 2)):
            _special(rng, mc, "tiny")
    elif flavour == "overflow-inf":
        spec = rng.choice([_agg("WSM"), _tr("VectorScaler", target="matrix"), _tr("StandarScaler", target="matrix"), _agg("FMF"), _agg("WPM"), _agg("RatioMOORA"),
                           _pipe(_tr("SumScaler", target="matrix"), _agg("WSM"))])
        mc = _special(rng, _plain_dm(rng, mix="max"), "huge")
    elif flavour in ("iterative-imputer", "knn-imputer"):
        if flavour == "iterative-imputer":
            kw = {"sample_posterior": True, "random_state": None if global_rng_ok and rng.random() < 0.4 else rng.randint(0, 2 ** 31 - 1)}
            if rng.random() < 0.3:
                kw.update(imputation_order="random", max_iter=3)
            spec = _tr("IterativeImputer", **kw)
        else:
            spec = _tr("KNNImputer", n_neighbors=rng.choice([1, 2, 5]), weights=rng.choice(["uniform", "distance"]))
        if rng.random() < 0.4:
            spec = _pipe(spec, _agg("TOPSIS", metric="euclidean"), op=rng.choice(["evaluate", "transform"]))
        mc = _plain_dm(rng, m=rng.randint(4, 6), n=rng.randint(2, 4))
        rows, cols = len(mc["matrix"]), len(mc["matrix"][0])
        for j in rng.sample(range(cols), 2):
            mc["matrix"][rng.randrange(rows)][j] = None
    else:
        raise KeyError(flavour)
    return {"same": False, "spec": spec, "mc": mc, "flavour": flavour}


def gen_refuse_case(rng, way, cls=None, piped=False, how=None):
    fail = gen_refusal(rng, way, cls, piped, how)
    before = rng.random() < 0.25
    probes = [fp_probe(rng, f, global_rng_ok=not before) for f in PROBE_FLAVOURS]
    probes.append(same_object_probe(rng, fail))
    if rng.random() < 0.5:
        probes.append(same_object_probe(rng, fail))
    rng.shuffle(probes)
    return {"kind": "refuse", "spec": fail["spec"], "fail": fail, "repeat": rng.choice([1, 1, 2]), "probes": probes, "before": before,
            "ambient": rng.choice(AMBIENT), "npseed": rng.randint(0, 2 ** 31 - 1)}


def refuse_plan(rng, n):
    """n refused calls: every way the library refuses input, by every class that refuses it, alone and as the last step of a
    pipeline (every way the value can reach it); further ones at random"""
    plan = []
    for way, classes in REFUSE_WAYS.items():
        for cls in classes:
            plan.append((way, cls, False, None))
        for k, cls in enumerate(classes):
            plan.append((way, cls, True, REFUSE_PRE[way][k % len(REFUSE_PRE[way])]))
    plan += [("shape", None, False, "garbage"), ("shape", None, True, "onerow"), ("short-b", None, False, "short"),
             ("missing", None, False, None), ("missing", None, True, None)]
    rng.shuffle(plan)
    # the zero / negative / minimise refusals of the four classes the property's domain names, first
    plan.sort(key=lambda t: 0 if t[0] in ("zero", "neg", "allmin") else 1)
    out = []
    while len(out) < n:
        if len(out) < len(plan):
            out.append(plan[len(out)])
        else:
            way = rng.choice(list(REFUSE_WAYS) * 2 + ["shape", "short-b", "missing"])
            out.append((way, None, rng.random() < 0.5, None))
    return [gen_refuse_case(rng, *t) for t in out]


def _ambient(case):
    """the caller's process-wide settings, made once at the start of a process (the run under test and every reference alike)"""
    import random
    import warnings

    how = case.get("ambient", "default")
    if how == "ignore":
        np.seterr(all="ignore")
    elif how == "warn-all":
        np.seterr(all="warn")
    else:
        np.seterr(divide="warn", over="warn", under="ignore", invalid="warn")  # numpy's defaults
    warnings.simplefilter("ignore")  # warnings are not outputs (a filter a call leaves IN FRONT of this one still shows)
    np.random.seed(case["npseed"] % (2 ** 32))
    random.seed(case["npseed"])


def _proc_state():
    """what a call must not leave changed in the process (for the report; the oracle compares OUTPUTS)"""
    import random
    import warnings

    return {"np.geterr": dict(np.geterr()), "warnings.filters": [_repr(f[:3]) for f in warnings.filters[:4]],
            "n_warnings.filters": len(warnings.filters), "np.random": digest(np.random.get_state()[1])[:12],
            "random": _sha(repr(random.getstate()).encode())[:12]}


def raw_call(obj, op, arg, kw=None):
    """one call, NOT wrapped in errstate / catch_warnings"""
    extra = _call_kwargs(obj, op, kw)
    try:
        out = getattr(obj, op)(arg, **extra)
    except Exception as e:
        return {"err": type(e).__name__, "msg": str(e)[:160]}
    return {"ok": digest(out), "sum": C.jsonable(summary(out))}


def run_refuse(case):
    """ONE process: [the probes,] the refused call, the probes"""
    _ambient(case)
    fail = case["fail"]
    obj, op = build(fail["spec"])

    def probes():
        outs = []
        for p in case["probes"]:
            o, oop = (obj, op) if p["same"] else build(p["spec"])
            outs.append(raw_call(o, oop, mk_input(p["mc"])))
        return outs

    res = {"before": probes() if case.get("before") else None, "state0": _proc_state()}
    res["fails"] = [raw_call(obj, op, mk_input(fail["mc"]), fail.get("kw")) for _ in range(case.get("repeat", 1))]
    res["state1"] = _proc_state()
    res["after"] = probes()
    return res


def refuse_reference(case, k):
    """a fresh process with the same settings of the caller, in which probe k is the only call"""
    _ambient(case)
    p = case["probes"][k]
    obj, op = build(p["spec"])
    return raw_call(obj, op, mk_input(p["mc"]))


def judge_refuse(case, obs, name):
    out = []
    fail = case["fail"]
    refused = f"{name} refused a call ({fail['label']}: {obs['fails'][0].get('err', 'NOT refused')} {obs['fails'][0].get('msg', '')[:60]!r})"
    left = {k: [obs["state0"][k], obs["state1"][k]] for k in obs["state0"] if obs["state0"][k] != obs["state1"][k]}
    note = (" - the process after the refused call differs from before it in " + json.dumps(left)) if left else ""
    for k, p in enumerate(case["probes"]):
        if obs["fresh2"][k] is not None and not _same(obs["fresh"][k], obs["fresh2"][k]):
            return [_pfinding(f"{spec_name(p['spec'])}: two fresh processes disagree on the same matrix ({p['flavour']})", obs["fresh"][k], obs["fresh2"][k])]
    for k, f in enumerate(obs["fails"][1:]):
        if not _same(obs["fails"][0], f):
            out.append(_pfinding(f"{name}: the same out-of-domain matrix ({fail['label']}) is answered differently the {k + 2}. time on one object",
                                 obs["fails"][0], f))
            break
    for when in ("after", "before"):
        for k, p in enumerate(case["probes"]):
            if obs[when] is None or _same(obs[when][k], obs["fresh"][k]):
                continue
            who = "the SAME object" if p["same"] else f"a NEW {spec_name(p['spec'])}"
            done = list(zip(case["probes"], obs["before"] or []))[: k if when == "before" else None]
            if when == "after":
                done += list(zip(case["probes"], obs["after"]))[:k]
            earlier = [f"{spec_name(q['spec'])} ({q['flavour']}): {o['err']}" for q, o in done if "err" in o]
            if earlier and not (when == "after" and left):
                note = note + " - calls of this process that raised before it: " + "; ".join(earlier[:6])
            if when == "after":
                what = (f"{refused}; afterwards, in the same process, {who} on a matrix of its domain ({p['flavour']}) does not return what "
                        f"a fresh process returns for it{note}")
            else:
                what = (f"{who} ({p['flavour']}) called in a process before anything failed (call #{k}) does not return what a fresh "
                        "process returns for it")
            out.append(_pfinding(what + "; matrix: " + json.dumps({a: p["mc"].get(a) for a in ("matrix", "objectives", "weights")}),
                                 obs["fresh"][k], obs[when][k]))
            return out
    return out


# ----------------------------------------------------------------------------- generation


def gen_hist_case(rng, spec):
    pool = make_pool(rng, spec, rng.randint(3, 5))
    good = [i for i, p in enumerate(pool) if "ood" not in p and "garbage" not in p]
    probe = rng.choice(good if rng.random() < 0.85 else list(range(len(pool))))
    hist = [rng.randrange(len(pool)) for _ in range(rng.randint(2, 8))]
    if _is_simus(spec) or spec_family(spec) == "rank_reversal":
        hist = hist[:5]
    positions = sorted(rng.sample(range(len(hist) + 1), rng.randint(2, min(4, len(hist) + 1))))
    if rng.random() < 0.5 and 0 not in positions:
        positions[0] = 0  # the probe as the very first call: what a fresh object returns
    positions = sorted(set(positions))
    pair = [i for i, p in enumerate(pool) if "pair" in p]
    if len(pair) == 2 and rng.random() < 0.8:
        # the probe is one matrix of the pair "same labels, other positions"; its partner is processed before the last probe
        probe = rng.choice(pair)
        partner = pair[0] if probe == pair[1] else pair[1]
        if len(positions) < 2:
            positions = [0, len(hist)]
        if partner not in hist[: positions[-1]]:
            hist[rng.randrange(positions[-1])] = partner
    if _draws(spec):
        # a generator kept on the object advances with every successful call: the probe accepted, >= 3 positions, one after
        # at least two other calls
        if probe not in good:
            probe = rng.choice(good)
        if len(hist) < 3:
            hist = hist + [rng.choice(good) for _ in range(3 - len(hist))]
        positions = sorted(set(positions) | {0, len(hist)} | {rng.randrange(1, len(hist))})
    return {"kind": "hist", "spec": spec, "pool": pool, "hist": hist, "probe": probe, "positions": sorted(set(positions)),
            "reuse_dm": rng.random() < 0.5}


def gen_model_case(rng):
    def mat():
        return [] if rng.random() < 0.2 else [rng.randint(-9, 9) for _ in range(rng.randint(1, 4))]

    hist = [mat() for _ in range(rng.randint(1, 6))]
    probe = [rng.randint(-9, 9) for _ in range(rng.randint(1, 4))]
    positions = sorted(rng.sample(range(len(hist) + 1), rng.randint(2, min(3, len(hist) + 1))))
    return {"kind": "model", "hist": hist, "probe": probe, "positions": positions}


def gen(ctx, search=False):
    rng = ctx.rng
    cases = [] if search else [{"kind": "table"}]
    if not search:
        cases.append({"kind": "model", "hist": [[5, 7]], "probe": [1, 2], "positions": [0, 1]})
        for _ in range(ctx.n(20, 200)):
            cases.append(gen_model_case(rng))
    n = 600 if search else ctx.n(200, 3000)
    specs = []
    while len(specs) < n:
        specs.extend(spec_round(rng))
    for spec in specs[:n]:
        cases.append(gen_hist_case(rng, spec))
    # a call that raises midway (random numbers already drawn) followed by an accepted probe: every way, every run
    n_mid = 120 if search else ctx.n(18, 150)
    step = max(1, len(cases) // n_mid)
    for t in range(n_mid):
        cases.insert(min(len(cases), 2 + t * (step + 1)), gen_midway_case(rng, MIDWAY[t % len(MIDWAY)]))
    # construction histories: every class with hyper-parameters, the decorated ones several times
    hp = _hp_classes()
    n_ctor = 400 if search else ctx.n(90, 900)
    t = 0
    while t < n_ctor:
        for kind, cls in hp:
            for _ in range(6 if kind == "user" else 1):
                cases.append(gen_ctor_case(rng, kind, cls))
                t += 1
    # streams of throw-away matrices through one long-lived object (spread over the list: they are the longest cases)
    n_stream = 32 if search else ctx.n(12, 48)
    step = max(1, len(cases) // n_stream)
    for t in range(n_stream):
        cases.insert(min(len(cases), 5 + t * (step + 1)), gen_stream_case(rng, t))
    # a refused call followed, in the same process, by calls through floating-point special cases / third-party estimators: a
    # fixed share of every run (spread over the list)
    n_ref = 160 if search else ctx.n(40, 200)
    step = max(1, len(cases) // n_ref)
    for t, c in enumerate(refuse_plan(rng, n_ref)):
        cases.insert(min(len(cases), 4 + t * (step + 1)), c)
    if ctx.thorough and not search:
        # every sequence of length <= 4 over a pool of three matrices (two accepted, of different shape; one refused)
        for spec in spec_round(rng):
            a = in_domain(rng, spec)
            b = in_domain(rng, spec)
            for _ in range(5):
                if (len(b["matrix"]), len(b["matrix"][0])) != (len(a["matrix"]), len(a["matrix"][0])):
                    break
                b = in_domain(rng, spec)
            c = out_of_domain(rng, spec)
            for first in range(3):
                cases.append({"kind": "exh", "spec": spec, "pool": [a, b, c], "first": first, "maxlen": 4})
    # calls that use the optional per-call arguments of the entry point among plain calls: every class that has any, every
    # kind of value as the first such call of a history (spread over the list)
    kw_classes = call_arg_classes()
    n_kw = (60 if search else ctx.n(16, 120)) * len(kw_classes)
    step = max(1, len(cases) // max(1, n_kw))
    for t in range(n_kw):
        label, mk, params = kw_classes[t % len(kw_classes)]
        hows = KW_HOWS[:4]
        cases.insert(min(len(cases), 3 + t * (step + 1)), gen_kwcall_case(rng, mk(rng), params, hows[(t // len(kw_classes)) % len(hows)]))
    return cases


def search_gen(ctx):
    """what run.py explores for a failing input once a proof obligation or a correspondence is broken"""
    return gen(ctx, search=True)


# ----------------------------------------------------------------------------- the implementation side


def _toy(step, hist):
    """the toy family of Skc/Model/Stateless.lean, in Python"""
    slot, outs = None, []
    for d in hist:
        if not d:
            outs.append({"err": "ValueError"})
            continue
        m = min(d)
        if step == "caching":
            if slot is None:
                slot = m
            m = slot
        elif step == "counting":
            slot = (slot or 0) + 1
        outs.append({"ok": [v - m for v in d]})
    return outs, slot


def observe(case):
    kind = case["kind"]
    if kind == "table":
        import extract as X

        entries, classes, n = X.self_writes_scan()
        gen_file = (X.GEN / "SelfWrites.lean")
        return {"entries": [list(e) for e in entries], "classes": len(classes), "frames": n,
                "file_rows": (gen_file.read_text().split("def suspectMemos")[0].count("  ⟨")) if gen_file.exists() else None}
    if kind == "model":
        seq, at = final_sequence(case["hist"], case["probe"], case["positions"])
        return {"seq": seq, "at": at, "py": {s: _toy(s, seq) for s in ("stateless", "caching", "counting")},
                "fresh": {s: _toy(s, [case["probe"]])[0][0] for s in ("stateless", "caching", "counting")}}
    spec, pool = case["spec"], case.get("pool")
    preload()
    with M.quiet():
        if kind == "hist":
            seq, at = final_sequence(case["hist"], case["probe"], case["positions"])
            kws = final_kws(case["kws"], case["positions"]) if case.get("kws") else None
            used = sorted({i for k, i in enumerate(seq) if not (kws and kws[k])})  # members that are called plainly
            fresh = {i: in_child(fresh_output, spec, pool[i]) for i in used}
            fresh2 = {i: in_child(fresh_output, spec, pool[i]) for i in used}
            outs, changes = in_child(run_sequence, spec, pool, seq, True if case.get("reuse_dm") else None, True, kws)
            twin, _ = in_child(run_sequence, spec, pool, seq, None, False, kws)
            obs = {"seq": seq, "at": at, "outs": outs, "twin": twin, "changes": changes,
                   "fresh": {str(i): fresh[i] for i in used}, "fresh2": {str(i): fresh2[i] for i in used}}
            if kws:
                # a call that uses per-call arguments: the reference is a fresh object (own process) called the same way
                obs["kws"] = kws
                obs["fresh_kw"] = {str(k): in_child(fresh_output, spec, pool[seq[k]], kws[k]) for k in range(len(seq)) if kws[k]}
                obs["fresh_kw2"] = {str(k): in_child(fresh_output, spec, pool[seq[k]], kws[k]) for k in range(len(seq)) if kws[k]}
            return obs
        if kind == "refuse":
            n = len(case["probes"])
            obs = in_child(run_refuse, case)
            obs["fresh"] = [in_child(refuse_reference, case, k) for k in range(n)]
            # a second reference only where it decides something: is a difference due to the history or to the method itself?
            differs = [any(o is not None and not _same(o[k], obs["fresh"][k]) for o in (obs["before"], obs["after"])) for k in range(n)]
            obs["fresh2"] = [in_child(refuse_reference, case, k) if differs[k] else None for k in range(n)]
            return obs
        if kind == "ctor":
            return {"ref": in_child(ctor_reference, case), "ref2": in_child(ctor_reference, case), "seq": in_child(ctor_sequence, case)}
        if kind == "stream":
            mats = [stream_matrix(case, k) for k in range(case["n"])]
            probe = stream_matrix(case, -1)
            outs, probes = in_child(run_stream, case)
            fresh = [in_child(fresh_output, spec, mc) for mc in mats]
            bad = []
            for k, (o, f) in enumerate(zip(outs, fresh)):
                if not _same(o, f):
                    if len(bad) < 3:
                        earlier = [j for j in range(k) if "ok" in o and fresh[j].get("ok") == o["ok"]]
                        bad.append({"call": k, "matrix": mats[k], "got": o, "fresh": f, "fresh_again": in_child(fresh_output, spec, mats[k]),
                                    "is_the_output_of_call": earlier[-1] if earlier else None})
                    else:
                        bad.append({"call": k})
            return {"n": len(outs), "n_ok": sum(1 for o in outs if "ok" in o), "n_distinct": len({o.get("ok") for o in outs if "ok" in o}),
                    "errs": sorted({o["err"] for o in outs if "err" in o}), "n_bad": len(bad), "bad": bad[:3],
                    "bad_calls": [b["call"] for b in bad][:40], "probe": probes, "probe_fresh": in_child(fresh_output, spec, probe)}
        if kind == "exh":
            fresh = {i: in_child(fresh_output, spec, pool[i]) for i in range(len(pool))}
            bad, nseq, ncalls, changed = [], 0, 0, []
            first = case["first"]
            for L in range(1, case["maxlen"] + 1):
                for tail in itertools.product(range(len(pool)), repeat=L - 1):
                    seq = [first, *tail]
                    outs, changes = in_child(run_sequence, spec, pool, seq, None, True)
                    nseq += 1
                    ncalls += len(seq)
                    for k, (i, o) in enumerate(zip(seq, outs)):
                        if not _same(o, fresh[i]) and len(bad) < 3:
                            bad.append({"seq": seq, "call": k, "member": i, "got": o, "fresh": fresh[i]})
                    for k, ch in enumerate(changes):
                        if ch and len(changed) < 3:
                            changed.append({"seq": seq, "call": k, "changed": ch[:6]})
            return {"fresh": {str(i): v for i, v in fresh.items()}, "bad": bad, "changed": changed, "nseq": nseq, "ncalls": ncalls}
    raise KeyError(kind)


# ----------------------------------------------------------------------------- the model side


def requests(case, obs):
    if case["kind"] == "model":
        r = []
        for s in ("stateless", "caching", "counting"):
            r.append({"op": "hist", "step": s, "history": obs["seq"]})
            r.append({"op": "hist", "step": s, "history": [case["probe"]]})
        return r
    return []


def _probe_verdict(outs, at, fresh):
    """the property's oracle on a list of outputs: the probe agrees at every position and with a fresh object"""
    return all(outs[k] == fresh for k in at)


def judge(case, obs, replies):
    out = []
    kind = case["kind"]

    def prop(what, expected=None, observed=None):
        out.append({"kind": "property", "what": what, "expected": expected, "observed": observed})

    def corr(what, expected=None, observed=None):
        out.append({"kind": "correspondence", "what": what, "expected": expected, "observed": observed})

    if kind == "table":
        if obs["entries"]:
            corr("theorem no_self_writes (Generated.selfWrites = []) is false for this tree: the scanner lists "
                 f"{len(obs['entries'])} store(s) outside constructors, first: " + " | ".join(obs["entries"][0]),
                 [], obs["entries"][:10])
        if obs["file_rows"] is not None and obs["file_rows"] != len(obs["entries"]):
            corr("Skc/Generated/SelfWrites.lean is not the table of the tree under test", len(obs["entries"]), obs["file_rows"])
        if obs["classes"] < 40 or obs["frames"] < 150:
            corr("the scanner found suspiciously few method classes / functions", ">= 40 classes, >= 150 functions",
                 [obs["classes"], obs["frames"]])
        return out
    if kind == "model":
        at = obs["at"]
        for n, s in enumerate(("stateless", "caching", "counting")):
            rep, rep1 = replies[2 * n], replies[2 * n + 1]
            py_outs, py_slot = obs["py"][s]
            if rep.get("outputs") != py_outs or rep.get("slot") != py_slot:
                corr(f"hist op ({s}): Lean model vs its Python transcription", [py_outs, py_slot], [rep.get("outputs"), rep.get("slot")])
                continue
            fresh = (rep1.get("outputs") or [None])[0]
            verdict = _probe_verdict(rep["outputs"], at, fresh)
            # what the oracle must say: the caching step is wrong exactly when a successful call with another minimum
            # precedes a probe position
            expect = True
            if s == "caching":
                first_ok = next((d for d in obs["seq"] if d), None)
                expect = all(k == 0 or not any(obs["seq"][:k]) or min(first_ok) == min(case["probe"]) for k in at)
            if verdict != expect:
                corr(f"hist op ({s}): the history oracle says {'agree' if verdict else 'differ'}, expected "
                     f"{'agree' if expect else 'differ'}", expect, verdict)
            if s != "caching" and not verdict:
                corr(f"hist op ({s}): the model of a stateless method depends on its history", True, False)
        return out
    name = spec_name(case["spec"])
    if kind == "exh":
        for b in obs["bad"][:1]:
            prop(f"{name}: output depends on the call history: call #{b['call']} of sequence {b['seq']} (pool indices) on one object "
                 f"differs from a fresh object's output for pool member {b['member']}", b["fresh"], b["got"])
        for c in obs["changed"][:1]:
            corr(f"{name}: a call changed the object (model premise `(step o d).1 = o`): {c['changed']} at call #{c['call']} of {c['seq']}",
                 [], c["changed"])
        return out
    if kind == "ctor":
        return out + judge_ctor(case, obs, name)
    if kind == "stream":
        return out + judge_stream(case, obs, name)
    if kind == "refuse":
        return out + judge_refuse(case, obs, name)
    seq, at, outs = obs["seq"], obs["at"], obs["outs"]
    fresh = {int(k): v for k, v in obs["fresh"].items()}
    fresh2 = {int(k): v for k, v in obs["fresh2"].items()}
    for i in sorted(fresh):
        if not _same(fresh[i], fresh2[i]):
            prop(f"{name}: two objects built with the same parameters (and seed) disagree on the same matrix (pool member {i}, "
                 "first call of each)", fresh[i], fresh2[i])
            return out
    kws = obs.get("kws") or [None] * len(seq)
    fresh_kw = obs.get("fresh_kw", {})
    for k in sorted(fresh_kw, key=int):
        if not _same(fresh_kw[k], obs["fresh_kw2"][k]):
            prop(f"{name}: two objects built with the same parameters (and seed) disagree on the same matrix (pool member "
                 f"{seq[int(k)]}) called with the same per-call arguments {_show_kw(kws[int(k)])}, first call of each", fresh_kw[k],
                 obs["fresh_kw2"][k])
            return out
    calls = [str(i) if not kw else f"{i}+{_show_kw(kw)}" for i, kw in zip(seq, kws)]
    how_called = f" [calls as member+per-call arguments: {', '.join(calls)}]" if obs.get("kws") else ""
    pv = [outs[k] for k in at]
    if any(not _same(pv[0], v) for v in pv[1:]):
        k = next(k for k, v in zip(at, pv) if not _same(pv[0], v))
        prop(f"{name}: the probe (pool member {case['probe']}) returns different outputs at positions {at[0]} and {k} of the "
             f"call sequence {seq} on one object{how_called}", pv[0], outs[k])
    for k, (i, o) in enumerate(zip(seq, outs)):
        ref = fresh_kw[str(k)] if str(k) in fresh_kw else fresh[i]
        if not _same(o, ref):
            prop(f"{name}: call #{k} of the sequence {seq} (pool member {i}"
                 + (f", per-call arguments {_show_kw(kws[k])}" if kws[k] else ", plain call" if obs.get("kws") else "")
                 + ") on one object differs from what a fresh object built with the same parameters returns for that matrix"
                 + (" called the same way" if obs.get("kws") else "") + how_called, ref, o)
            break
    for k, (o, t) in enumerate(zip(outs, obs["twin"])):
        if not _same(o, t):
            prop(f"{name}: two objects with the same parameters fed the same sequence {seq} disagree at call #{k}{how_called}", o, t)
            break
    for k, ch in enumerate(obs["changes"]):
        if ch:
            corr(f"{name}: a call changed the object (model premise `(step o d).1 = o`; theorem no_self_writes): {ch[:6]} "
                 f"at call #{k} of {seq}", [], ch[:10])
            break
    return out


def _pfinding(what, expected=None, observed=None):
    return {"kind": "property", "what": what, "expected": expected, "observed": observed}


def _show_params(p):
    return {k: v[1] for k, v in p.items()}


def judge_ctor(case, obs, name):
    """two objects built with the same parameters behave identically - whatever else was built before the second one"""
    out = []
    ref, seq = obs["ref"], obs["seq"]
    given = _ctor_kw(case["spec"])
    built = f"{name}({', '.join(f'{k}={_repr(v)}' for k, v in (given or {}).items())})"
    if case.get("wrap"):
        built += " as a step of a new pipeline ." + case["wrap"]["op"]
    hist = "; ".join(("first.copy" if b["via"] == "copy" else name) + "(" +
                     ", ".join(f"{k}={_repr(v)}" for k, v in (_ctor_kw(b["spec"]) or {"...": "other parameters"}).items()) + ")"
                     for b in case["between"])
    if not _same(ref["out"], obs["ref2"]["out"]) or ref["params"] != obs["ref2"]["params"]:
        return [_pfinding(f"{built}: two objects built with the same parameters, each the only object of its process, disagree",
                          [ref["out"], _show_params(ref["params"])], [obs["ref2"]["out"], _show_params(obs["ref2"]["params"])])]
    for key, who in (("3", f"the object built AFTER {hist}"), ("1", "the first object of the process"),
                     ("1_again", f"the object built BEFORE {hist}, asked again afterwards")):
        if "out" + key not in seq:
            continue
        if seq["params" + key] != ref["params"]:
            out.append(_pfinding(f"{built}: {who} does not hold the parameters that the only object of a fresh process, built by the "
                                 "same constructor call, holds", _show_params(ref["params"]), _show_params(seq["params" + key])))
            break
        if not _same(seq["out" + key], ref["out"]):
            out.append(_pfinding(f"{built}: {who} does not return what the only object of a fresh process, built by the same "
                                 "constructor call, returns for the same matrix", ref["out"], seq["out" + key]))
            break
    for pname, (declared, held, eq) in seq["declared3"].items():
        if not eq:
            out.append(_pfinding(f"{built}: parameter {pname!r} was not given and the constructor declares the default {declared}, but "
                                 f"the object built after {hist} holds {held}", declared, held))
            break
    return out


def judge_stream(case, obs, name):
    """every call on the long-lived object returns what a fresh object returns for that matrix content"""
    out = []
    for b in obs["bad"][:1]:
        if not _same(b["fresh"], b["fresh_again"]):
            out.append(_pfinding(f"{name}: two fresh objects disagree on matrix #{b['call']} of the stream", b["fresh"], b["fresh_again"]))
            break
        stale = b.get("is_the_output_of_call")
        out.append(_pfinding(
            f"{name}: one long-lived object fed {obs['n']} throw-away matrices ({case['drop']}; no matrix kept after its call): call "
            f"#{b['call']} differs from what a fresh object built with the same parameters returns for that matrix content"
            + (f" - it is, bit for bit, what matrix #{stale} of the stream gives" if stale is not None else "")
            + f"; {obs['n_bad']} of {obs['n']} calls differ (calls {obs['bad_calls'][:12]}); matrix: "
            + json.dumps({k: b['matrix'].get(k) for k in ('matrix', 'objectives', 'weights', 'criteria', 'garbage') if k in b['matrix']}),
            b["fresh"], b["got"]))
    pf = obs["probe_fresh"]
    for k, o in sorted(obs["probe"].items(), key=lambda kv: int(kv[0])):
        if not _same(o, pf):
            out.append(_pfinding(f"{name}: the probe matrix (kept by the caller) evaluated after {k} throw-away matrices differs from a "
                                 "fresh object's output for it", pf, o))
            break
    return out


def nontrivial(case, obs):
    if case["kind"] == "ctor":
        return "ok" in obs["seq"]["out3"] and bool(case["between"])
    if case["kind"] == "stream":
        return obs["n_ok"] >= 50 and obs["n_distinct"] >= 25
    if case["kind"] == "refuse":
        return "err" in obs["fails"][0] and sum(1 for f in obs["fresh"] if "ok" in f) >= 3
    if case["kind"] != "hist":
        return True
    ok = {i for i, o in zip(obs["seq"], obs["outs"]) if "ok" in o}
    if case.get("kws"):
        # a call with per-call arguments, then the probe accepted; a plain accepted call of another matrix somewhere
        kws, seq, outs = obs["kws"], obs["seq"], obs["outs"]
        first = next((k for k, kw in enumerate(kws) if kw), len(seq))
        if not any(k > first and "ok" in outs[k] for k in obs["at"]):
            return False
        if not any(not kws[k] and seq[k] != case["probe"] and "ok" in outs[k] for k in range(len(seq))):
            return False
    return len(ok) >= 2 and len(obs["at"]) >= 2


def tags(case, obs):
    kind = case["kind"]
    t = [kind]
    if kind == "ctor":
        seq = obs["seq"]
        t.append("ctor:" + ("A," if case["first"] else "") + ",".join("B" if b["via"] == "new" else "A.copy(B)" for b in case["between"]) + ",A")
        t.append("ctor-last-object:" + ("pipeline-step" if case.get("wrap") else "alone"))
        t.append("ctor-parameters:" + ("defaults-left:%d" % len(obs["ref"]["declared"]) if _ctor_kw(case["spec"]) is not None else "all-given"))
        if any(b["out"] is not None and not _same(b["out"], obs["ref"]["out"]) for b in seq["between"]):
            t.append("ctor:other-parameters-change-the-output")
        if any(b["params"] != obs["ref"]["params"] for b in seq["between"]):
            t.append("ctor:other-parameters-differ")
        t.append("ctor-last-call:" + ("ok" if "ok" in seq["out3"] else "raised"))
    if kind == "stream":
        t.append("stream-drop:" + case["drop"])
        t.append("stream-shape:" + ("fixed" if case.get("shape") else "varying"))
        t.append("stream-matrices:%d+" % (obs["n"] // 100 * 100))
        t.append("stream-op:" + (case["spec"].get("op", "evaluate") if case["spec"]["k"] == "pipe" else "single-object"))
        for e in obs["errs"]:
            t.append("exc:" + e)
    if kind == "refuse":
        fail = case["fail"]
        cls = spec_name(fail["spec"]).split("(")[0] if fail["way"] not in REFUSE_WAYS else _base_agg(fail["spec"])["name"]
        how = "last-step-of-pipeline" if fail["piped"] else "alone"
        t.append(f"refused:{fail['way']}:{cls if fail['way'] != 'shape' else 'any-class'}:{how}:" + ("raised" if "err" in obs["fails"][0] else "NOT-REFUSED"))
        t.append("refuse-ambient:" + case["ambient"])
        t.append("refuse-probes-also-before:" + str(bool(case["before"])))
        for p, f in zip(case["probes"], obs["fresh"]):
            t.append("after-refusal:" + p["flavour"] + ":" + ("accepted" if "ok" in f else "exc-" + f["err"]))
            if p["flavour"] == "iterative-imputer":
                kw = (p["spec"]["steps"][0] if p["spec"]["k"] == "pipe" else p["spec"])["kw"]
                t.append("after-refusal:iterative-imputer:random_state=" + ("None(process-wide generator)" if kw["random_state"] is None else "int"))
    if kind in ("hist", "exh", "ctor", "stream", "refuse"):
        t.append("family:" + spec_family(case["spec"]))
        t.append("class:" + (spec_name(case["spec"]).split("(")[0]))
    if kind == "hist":
        n_err = sum(1 for o in obs["outs"] if "err" in o)
        t.append("calls-raised:%s" % ("0" if n_err == 0 else "1" if n_err == 1 else "2+"))
        t.append("len:%d" % len(obs["seq"]))
        if any("err" in o for o in obs["outs"][: obs["at"][-1]]):
            t.append("error-before-probe")
        if "err" in obs["outs"][obs["at"][0]]:
            t.append("probe-raises")
        t.append("reuse-dm" if case.get("reuse_dm") else "new-dm-per-call")
        if case.get("midway"):
            k_bad = [k for k, (i, o) in enumerate(zip(obs["seq"], obs["outs"])) if "err" in o and
                     str(case["pool"][i].get("ood", "")).startswith("midway:")]
            later = [k for k in obs["at"] if k_bad and k > k_bad[0] and "ok" in obs["outs"][k]]
            t.append("raised-midway:" + case["midway"] + (":then-probe-accepted" if later else ":NOT-as-intended"))
        if _draws(case["spec"]):
            n_ok = sum(1 for k in obs["at"] if "ok" in obs["outs"][k])
            t.append("seeded-and-drawing:" + spec_name(case["spec"]).split("(")[0] + ":probe-ok-at-%s-positions" % ("3+" if n_ok >= 3 else n_ok))
        if case.get("kws"):
            cls = spec_name(case["spec"]).split("(")[0]
            for k, kw in enumerate(obs["kws"]):
                for a, d in (kw or {}).items():
                    t.append(f"per-call-argument:{cls}.{a}:{d['how']}:" + ("accepted" if "ok" in obs["outs"][k] else "raised"))
            first = next(k for k, kw in enumerate(obs["kws"]) if kw)
            later = [k for k in obs["at"] if k > first]
            t.append("per-call-argument:then-plain-probe-" + ("accepted" if any("ok" in obs["outs"][k] for k in later) else "NOT-accepted"))
            ncrit = len(case["pool"][case["probe"]]["matrix"][0])
            fits = any(kw and "ok" in obs["outs"][k] and k < obs["at"][-1] and any(isinstance(d.get("v"), list) and len(d["v"]) == ncrit for d in kw.values())
                       for k, kw in enumerate(obs["kws"]) if obs["seq"][k] != case["probe"])
            if fits:
                t.append("per-call-argument:accepted-on-another-matrix-and-fits-the-probe")
        hows = [p["pair"] for p in case["pool"] if isinstance(p, dict) and str(p.get("pair", "")).startswith("b:")]
        if hows:
            pi = [i for i, p in enumerate(case["pool"]) if "pair" in p]
            both = all(any(i == j and "ok" in o for j, o in zip(obs["seq"], obs["outs"])) for i in pi)
            t.append("same-labels-other-positions:" + hows[0][2:] + (":both-accepted" if both else ":not-both-accepted"))
        for o in obs["outs"]:
            if "err" in o:
                t.append("exc:" + o["err"])
    if kind == "exh":
        t.append("exh-sequences:%d" % obs["nseq"])
    return sorted(set(t))
