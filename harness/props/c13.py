"""C13 — weighting methods are normalised, definition-conformant and order-independent."""
from __future__ import annotations

import bisect
import math
import warnings
from decimal import Decimal, getcontext
from fractions import Fraction

import numpy as np

import common as C
import gen as G

getcontext().prec = 50

PID = "C13"
RULE = (
    "cases: (decision matrix, weighter, row permutation, column permutation, second incoming weight vector). Matrices have 3..12 "
    "alternatives and 2..6 criteria, never square, no constant criterion (also after ideal-distance scaling and after ranking), "
    "positive cells for EntropyWeighter, all objective mixes, dyadic grids (with ties, integer columns declared int), arbitrary "
    "doubles and UNIT-INTERVAL data (every cell inside [0, 1] while the criteria do not each span exactly [0, 1]: ratings 0.2..0.9, "
    "percentages / 100, k/32 grids, probabilities, compressed sub-ranges, column shares = SumScaler output, row shares); one case in "
    "five is WHOLE-NUMBER raw data (Likert 1..5 / 1..10, scores 0..100, counts, large counts): ALL criteria integer typed (2/3; built "
    "from nested lists of Python ints, from an int64 numpy array, or from dtypes=) or integer criteria next to non-integer float64 "
    "ones (1/3); one case in five holds criteria with a TINY RELATIVE SPREAD (coefficient of variation 1e-4 .. 5e-3: calendar "
    "years, prices 100000 +- 25, altitudes, base * (1 + cv * u); whole numbers or doubles), every criterion (1/2) or next to "
    "ordinary criteria (1/2): their normalised entropies are within 1e-5 of 1 without being 1 (1 - H = 1e-9 .. 1e-5, a small "
    "positive entropy weight); in both fifths the weighter classes are cycled so that every weighter sees them in every tier "
    "(EqualWeighter on all-integer data with base_value / n not whole included); on top of these, LONG matrices (101 .. a few "
    "hundred alternatives, 2..6 criteria) whose criteria sit on a LARGE COMMON LEVEL with a small spread, |mean| / std of 1e5 .. 1e9 "
    "(prices around 1e6 .. 1e8 +- units or cents, unix timestamps in seconds / milliseconds inside a short window, base + s * u; "
    "whole numbers or doubles, some negated), every criterion (1/2) or next to ordinary criteria (1/2; always for EntropyWeighter), "
    "weighter classes cycled (StdWeighter and CRITIC most often): there the formulas must hold up to rounding relative to the SPREAD "
    "of a criterion, not to its level (see ASSUMPTIONS); on top of these, a FIXED SHARE (40 quick / 400 thorough) of matrices whose "
    "criteria are ALL STORED IN ONE NARROW OR UNSIGNED INTEGER TYPE (uint8 / uint16 / uint32 / uint64 / int8 / int16, cycled; an "
    "np.array(..., dtype=that type) handed to mkdm, or a float array with dtypes=[that type] * n; the stored dtype is asserted): "
    "pixel intensities, percentages, Likert answers, counts, identifiers, signed readings over the whole range of the type - in "
    "every criterion the difference of some two cells is NOT representable in the storage type (unsigned: any smaller-minus-larger; "
    "int8 / int16: max - min beyond 127 / 32767), in most criteria the first alternative is not the smallest, and the permuted "
    "presentation starts with another alternative; weighter classes cycled (StdWeighter every other case; EntropyWeighter on the "
    "unsigned types only: positive cells); and a FIXED SHARE (40 quick / 400 thorough) of cases whose INCOMING weights hold EXACT "
    "ZEROS next to positive ones ([0.5, 0, 0.25, 0.25], a 0/1 mask, one criterion switched off, all but one switched off, -0.0): "
    "in the first incoming vector, in the second, or in both (at other positions), every weighter class cycled, over every matrix "
    "family (narrow-integer storage included); the computed weights must not depend on them; incoming "
    "weights: pairwise distinct, ABSENT (matrix built without weights: default all-ones), explicit ones, a uniform constant (3.5, "
    "k/8, a double), 1/n, base_value/n, b'/n for another base_value b', or partly tied - for the first and for the second incoming "
    "vector, every weighter, every parameterisation; weighters: EqualWeighter(base_value), StdWeighter, EntropyWeighter, "
    "CRITIC(correlation in {pearson, spearman}, scale in {True, False}). Three legs: implementation vs Lean model (Float; exact Rat for "
    "EqualWeighter) vs an independent Fraction / 50-digit Decimal evaluation of the published formulas (the property oracle), plus "
    "label-wise comparison of the permuted presentations and bit-identity of matrix / objectives / labels / dtypes. Every case is "
    "also a short SEQUENCE of evaluations in one process on the same matrix values: the first configuration, then the same weighter "
    "under a second objective vector (a non-empty strict subset of the senses flipped), then another parameterisation of the same "
    "weighter class (other correlation and/or scale; other base_value) under the second and under the first objectives, then the "
    "first configuration again (same weighter object): each result must satisfy the normalisation and formula oracle for ITS OWN "
    "(matrix, objectives, parameters), agree with the Lean model run on those inputs, leave matrix / objectives untouched, and the "
    "first and last results must agree. Every configuration of the sequence is inside the generated domain. A case is "
    "non-trivial when every criterion is non-constant and the weights are not all equal (EqualWeighter: always)."
)
ASSUMPTIONS = [
    "numeric agreement means |impl - exact| <= 1e-9 * scale, scale >= 1 a conditioning bound computed from the exact evaluation "
    "(std: max|a_j|/s_j; entropy: 1/sum(1-H); CRITIC: spread/deviation ratio times sum(sigma)*n/total); generated cases keep scale <= 1e4 "
    "(EntropyWeighter on matrices whose criteria ALL have a tiny relative spread: <= 5e5, there sum(1-H) is 2e-6 .. 6e-5 by construction; "
    "the tolerance on a weight is then still below 1e-3 of the total, so a weight of exactly 0 for a criterion that the formula gives "
    "1e-3 of the total, and NaN weights, are findings)",
    "LONG matrices on a large level (family long:*): a standard deviation is a function of the deviations from the mean, and the "
    "deviations of doubles that share a level are (nearly) exact, so the level enters the rounding of the definition only at second "
    "order: textbook bound of the two-pass evaluation (Chan, Golub & LeVeque 1983) m*u + (m*u*kappa)^2 with kappa = |mean|/std and "
    "u = 2^-53, i.e. < 2e-9 for kappa <= 1e9 and m <= 400. For this family the conditioning bound therefore is: std -> "
    "max(1, (m*u*kappa)^2 / 1e-9) (no first-order allowance for the level); CRITIC on the unscaled matrix -> max|x - mean|/sigma instead of "
    "max|x|/sigma, plus the same second-order term, plus - Pearson only - the published first-order bound m*u*kappa of the one-pass "
    "(Welford) update that pandas.DataFrame.corr (external) uses; entropy and CRITIC on the ideal-distance-scaled matrix: the ordinary "
    "bounds (1/sum(1-H); the scaled criteria span [0, 1]). The cap scale <= 1e4 applies unchanged, so EntropyWeighter sees the large-level "
    "criteria only next to ordinary ones and CRITIC(pearson, scale=False) only up to kappa of about 1e7. An expanded-square "
    "(sum x^2 - (sum x)^2/m) variance loses kappa^2 * u (1e-6 .. all digits) and is a finding on every case of the family",
    "the published formulas are undefined (0/0) when the normalising total is zero: all criteria constant (std, entropy) or all criteria "
    "perfectly (rank-)correlated (CRITIC, e.g. [[1,2],[2,4],[3,6]] with two maximise criteria gives NaN weights); such inputs are "
    "outside the generated domain (total >= 1e-3 of its natural scale)",
    "pandas DataFrame.corr (pearson / spearman, average ranks), numpy std and scipy.stats.entropy are external: modelled by their textbook formulas",
    "columns keep distinct values separated by >= 1e-9 of the column range so that ranks of the scaled matrix do not depend on rounding",
]
PARTIAL = ("on LONG matrices (> 100 alternatives) Spearman evaluations above 120000 (alternatives * criteria)^2 are not run on the compiled "
           "model (cost), only through the exact oracle; IEEE rounding, summation order, pandas' one-pass correlation update and its final clip to [-1, 1], NaN/inf propagation are not "
           "modelled; theorems are over R, the Float run of the model only accompanies the code")
TRUSTED = ["Lean Float (C libm sqrt/log) is used only to run the model next to the code, never in a theorem"]

TOL = 1e-9
MAX_SCALE = 1e4
MAX_SCALE_LOWCV_ENTROPY = 5e5

# ----------------------------------------------------------------------------- exact evaluation (property oracle)


def D(x):
    if isinstance(x, Fraction):
        return Decimal(x.numerator) / Decimal(x.denominator)
    if isinstance(x, Decimal):
        return x
    return Decimal(x)


def _cols(A):
    return [list(c) for c in zip(*A)]


def _mean(col):
    return sum(col, Fraction(0)) / len(col)


def _ssq(col):
    mu = _mean(col)
    return sum(((x - mu) ** 2 for x in col), Fraction(0))


def _avg_ranks(col):
    """average ranks (ties share the mean of their positions), 1-based, ascending"""
    srt = sorted(col)
    out = []
    for x in col:
        less = bisect.bisect_left(srt, x)  # entries strictly below x
        eq = bisect.bisect_right(srt, x) - less  # entries equal to x
        out.append(Fraction(less) + Fraction(eq + 1, 2))
    return out


def _cenit(A, objs):
    cols = []
    for col, o in zip(_cols(A), objs):
        hi, lo = max(col), min(col)
        ideal, anti = (hi, lo) if o == 1 else (lo, hi)
        if ideal == anti:
            return None
        cols.append([(x - anti) / (ideal - anti) for x in col])
    return [list(r) for r in zip(*cols)]


def _normalise(v):
    tot = sum(v, Decimal(0))
    if tot == 0:
        return None, tot
    return [x / tot for x in v], tot


U_ROUND = 2.0 ** -53


def _kappa(col, s):
    """|mean| / std of a criterion: how many digits an evaluation that works on the level (not on the deviations) loses"""
    return abs(float(_mean(col))) / float(s)


def _second_order(m, kappa):
    """rounding of a two-pass standard deviation that is due to the LEVEL of the data, in units of TOL: (m u kappa)^2"""
    return (m * U_ROUND * kappa) ** 2 / TOL


def exact_weights(spec, A, objs, level=False):
    """published formulas, Fraction / Decimal(50).  returns (weights | None, scale).  level: the conditioning bound of the
    long / large-level family (rounding relative to the spread of a criterion, see ASSUMPTIONS); the weights are the same"""
    m, n = len(A), len(A[0])
    cls = spec["cls"]
    if cls == "EqualWeighter":
        b = C.F(spec["base_value"])
        return [D(b / n)] * n, max(1.0, abs(float(b)))
    cols = _cols(A)
    if cls == "StdWeighter":
        s = [D(_ssq(c) / (m - 1)).sqrt() for c in cols]  # sample standard deviation
        w, tot = _normalise(s)
        if w is None or min(s) == 0:
            return None, 1.0
        if level:
            cond = max(_second_order(m, _kappa(c, sj)) for c, sj in zip(cols, s))
        else:
            cond = max(float(max(abs(x) for x in c)) / float(sj) for c, sj in zip(cols, s))
        return w, max(1.0, cond)
    if cls == "EntropyWeighter":
        lm = D(m).ln()
        d = []
        for c in cols:
            tot = sum(c, Fraction(0))
            h = Decimal(0)
            for x in c:
                p = D(x / tot)
                if p > 0:
                    h -= p * p.ln()
            d.append(1 - h / lm)  # one minus the normalised Shannon entropy
        w, tot = _normalise(d)
        if w is None:
            return None, 1.0
        return w, max(1.0, 1.0 / float(tot))
    if cls == "CRITIC":
        Mx = _cenit(A, objs) if spec["scale"] else A
        if Mx is None:
            return None, 1.0
        mcols = _cols(Mx)
        ssq = [_ssq(c) for c in mcols]
        if min(ssq) == 0:
            return None, 1.0
        sigma = [D(q / m).sqrt() for q in ssq]  # population standard deviation
        rcols = [_avg_ranks(c) for c in mcols] if spec["correlation"] == "spearman" else mcols
        mus = [_mean(c) for c in rcols]
        dev = [[x - mu for x in c] for c, mu in zip(rcols, mus)]
        rss = [sum((x * x for x in dv), Fraction(0)) for dv in dev]
        if min(rss) == 0:
            return None, 1.0
        info = []
        for j in range(n):
            acc = Decimal(0)
            for k in range(n):
                cov = sum((a * b for a, b in zip(dev[j], dev[k])), Fraction(0))
                acc += 1 - D(cov) / D(rss[j] * rss[k]).sqrt()
            info.append(sigma[j] * acc)
        w, tot = _normalise(info)
        if w is None:
            return None, 1.0
        if level and not spec["scale"]:
            # raw criteria on a large level: deviations instead of values; the level enters at second order (two-pass np.std) and,
            # for Pearson, at first order through the one-pass update of pandas' corr (published bound m u kappa)
            kap = [_kappa(c, sj) for c, sj in zip(mcols, sigma)]
            cancel = max(max(float(max(abs(x) for x in dv)) / float(sj), _second_order(m, k))
                         for dv, sj, k in zip([[x - mu for x in c] for c, mu in zip(mcols, [_mean(c) for c in mcols])], sigma, kap))
            if spec["correlation"] == "pearson":
                rcancel = max(cancel, max(m * U_ROUND * k / TOL for k in kap))
            else:
                rcancel = max(float(max(abs(x) for x in c)) / math.sqrt(float(q) / m) for c, q in zip(rcols, rss))
        else:
            cancel = max(float(max(abs(x) for x in c)) / float(sj) for c, sj in zip(mcols, sigma))
            rcancel = max(float(max(abs(x) for x in c)) / math.sqrt(float(q) / m) for c, q in zip(rcols, rss))
        cond = max(cancel, rcancel) * float(sum(sigma)) * n / float(tot)
        return w, max(1.0, cond)
    raise ValueError(cls)


def _entropy_divergences(A):
    """1 - normalised Shannon entropy of every criterion (floats, for the input histogram only)"""
    m = len(A)
    out = []
    for c in _cols(A):
        tot = sum(c, Fraction(0))
        h = Decimal(0)
        for x in c:
            p = D(x / tot)
            if p > 0:
                h -= p * p.ln()
        out.append(float(1 - h / D(m).ln()))
    return out


def _cv(col):
    mu = sum(col) / len(col)
    sd = math.sqrt(sum((x - mu) ** 2 for x in col) / len(col))
    return sd / abs(mu) if mu else float("inf")


# ----------------------------------------------------------------------------- generation


def _columns_ok(A, entropy):
    for col in _cols(A):
        vals = sorted(set(col))
        if len(vals) < 2:
            return False
        rng_ = vals[-1] - vals[0]
        if any(b - a < 1e-9 * rng_ for a, b in zip(vals, vals[1:])):
            return False
        if entropy and vals[0] <= 0:
            return False
    return True


LONG_CYCLE = ["StdWeighter", "CRITIC", "StdWeighter", "EntropyWeighter", "CRITIC", "StdWeighter", "CRITIC", "EqualWeighter", "CRITIC"]
SPEC_CYCLE = ["EqualWeighter", "StdWeighter", "EntropyWeighter", "CRITIC", "EqualWeighter", "EntropyWeighter", "CRITIC", "StdWeighter", "CRITIC"]


def _spec(rng, cls=None):
    cls = cls or rng.choice(["EqualWeighter", "StdWeighter", "EntropyWeighter", "CRITIC", "CRITIC", "CRITIC"])
    if cls == "EqualWeighter":
        how = rng.randrange(4)
        b = [1.0, rng.randint(1, 64) / 8, math.ldexp(rng.uniform(0.5, 1.0), rng.randint(-5, 8)), float(rng.randint(2, 9))][how]
        return {"cls": cls, "base_value": b}
    if cls == "CRITIC":
        return {"cls": cls, "correlation": rng.choice(["pearson", "spearman"]), "scale": rng.choice([True, False])}
    return {"cls": cls}


UNIT_KINDS = ["ratings", "percent", "grid32", "prob", "subrange", "col-shares", "row-shares"]


def _unit_matrix(rng, m, n, positive, ties):
    """data that is ALREADY inside the unit interval (shares, probabilities, ratings, percentages / 100, the output of a sum
    scaler) although the criteria do not each span exactly [0, 1]"""
    kind = rng.choice(UNIT_KINDS)
    lo = 1 if positive else 0
    if kind == "ratings":
        a = rng.randint(1, 4)
        b = rng.randint(a + 3, 9)
        rows = [[rng.randint(a, b) / 10 for _ in range(n)] for _ in range(m)]
    elif kind == "percent":
        rows = [[rng.randint(lo, 100) / 100 for _ in range(n)] for _ in range(m)]
    elif kind == "grid32":
        rows = [[rng.randint(lo, 32) / 32 for _ in range(n)] for _ in range(m)]
    elif kind == "prob":
        rows = [[rng.uniform(0.001, 1.0) for _ in range(n)] for _ in range(m)]
    elif kind == "subrange":
        bounds = []
        for _ in range(n):
            a = rng.uniform(0.0, 0.8)
            bounds.append((a, rng.uniform(a + 0.1, 1.0)))
        rows = [[rng.uniform(*bounds[j]) for j in range(n)] for _ in range(m)]
    else:
        fam = rng.choice(["dyadic", "float"])
        raw = G.matrix(rng, m, n, fam, True, ties=0.0, dups=0.0)
        if kind == "col-shares":  # what SumScaler(target="matrix") hands on
            tot = [sum(r[j] for r in raw) for j in range(n)]
            rows = [[r[j] / tot[j] for j in range(n)] for r in raw]
        else:  # each alternative's profile as shares of its own total
            rows = [[x / sum(r) for x in r] for r in raw]
    for j in range(n):
        for i in range(1, m):
            if rng.random() < ties:
                rows[i][j] = rows[rng.randrange(i)][j]
    if not all(0.0 <= x <= 1.0 for r in rows for x in r):
        return None, kind
    if all(min(c) == 0.0 and max(c) == 1.0 for c in _cols(rows)):
        return None, kind  # every criterion spans exactly [0, 1]: ideal-distance scaling would be the identity
    return rows, kind


INT_KINDS = ["likert5", "likert10", "score100", "counts", "big-counts", "signed"]


def _int_matrix(rng, m, n, positive, mixed):
    """raw whole-number data (ratings, Likert answers, scores, counts): every criterion a column of Python / numpy ints; mixed:
    at least one criterion of whole numbers next to at least one criterion of non-integer doubles.  Returns (rows, is_int per column)"""
    is_int = [True] * n
    if mixed:
        is_int = [rng.random() < 0.5 for _ in range(n)]
        i, k = rng.sample(range(n), 2)
        is_int[i], is_int[k] = True, False
    cols = []
    for j in range(n):
        if not is_int[j]:
            cols.append([G.value(rng, rng.choice(["dyadic", "float"]), positive) + 0.03125 for _ in range(m)])
            continue
        kind = rng.choice(INT_KINDS if not positive else INT_KINDS[:-1])
        lo = 1 if positive else 0
        if kind == "likert5":
            col = [rng.randint(1, 5) for _ in range(m)]
        elif kind == "likert10":
            col = [rng.randint(lo, 10) for _ in range(m)]
        elif kind == "score100":
            col = [rng.randint(lo, 100) for _ in range(m)]
        elif kind == "counts":
            col = [rng.randint(lo, rng.choice([20, 500, 3000])) for _ in range(m)]
        elif kind == "big-counts":
            col = [rng.randint(1000, 10 ** rng.randint(4, 7)) for _ in range(m)]
        else:
            col = [rng.randint(-20, 40) for _ in range(m)]
        cols.append([float(x) for x in col])
    return [[cols[j][i] for j in range(n)] for i in range(m)], is_int


LOWCV_KINDS = ["year", "price", "altitude", "generic", "generic"]


def _lowcv_column(rng, m):
    """a NON-constant criterion with a tiny RELATIVE spread (coefficient of variation about 1e-4 .. 5e-3): calendar years
    2001..2020, prices 100000 +- 25, altitudes 2500 +- 12, ...; whole numbers (2/3) or doubles.  The normalised Shannon entropy of
    such a criterion is within 1e-5 of 1 (1 - H about cv^2 / (2 ln m): 1e-9 .. 1e-5) but NOT 1: the criterion carries a small
    positive entropy weight; its standard deviation is small next to its mean, not next to the other criteria's"""
    kind = rng.choice(LOWCV_KINDS)
    if kind == "year":
        a = rng.randint(1950, 2010)
        col = [float(rng.randint(a, a + rng.choice([8, 19, 30]))) for _ in range(m)]
    elif kind == "price":
        base = rng.choice([100000, 50000, 250000, 1000000, 19990])
        h = max(3, int(base * 10 ** rng.uniform(-3.7, -2.4)))
        col = [float(base + rng.randint(-h, h)) for _ in range(m)]
    elif kind == "altitude":
        base = rng.randint(1500, 8000)
        h = max(3, int(base * 10 ** rng.uniform(-3.3, -2.2)))
        col = [float(base + rng.randint(-h, h)) for _ in range(m)]
    else:
        base = 10 ** rng.uniform(-2, 6)
        cv = 10 ** rng.uniform(-3.9, -2.3)
        col = [base * (1 + cv * rng.uniform(-1.7, 1.7)) for _ in range(m)]
    if kind != "generic" and rng.random() < 1 / 3:
        col = [x + rng.choice([0.0, 0.25, 0.5, 0.1]) for x in col]  # the same quantities, not whole
    return col


def _lowcv_matrix(rng, m, n, positive, alone):
    """alone: EVERY criterion has a tiny relative spread; otherwise at least one has, next to at least one ordinary criterion"""
    low = [True] * n
    if not alone:
        low = [rng.random() < 0.5 for _ in range(n)]
        i, k = rng.sample(range(n), 2)
        low[i], low[k] = True, False
    fam = rng.choice(["dyadic", "float"])
    ordinary = G.matrix(rng, m, n, fam, positive, ties=rng.choice([0.0, 0.15]), dups=0.0)
    cols = []
    for j in range(n):
        if low[j]:
            col = _lowcv_column(rng, m)
            if not positive and rng.random() < 0.15:
                col = [-x for x in col]  # depths, debts
            for i in range(1, m):
                if rng.random() < 0.1:
                    col[i] = col[rng.randrange(i)]
        else:
            col = [r[j] for r in ordinary]
        cols.append(col)
    return [[cols[j][i] for j in range(n)] for i in range(m)], low


LEVEL_KINDS = ["price", "price", "timestamp", "epoch-ms", "generic", "generic"]
KAPPA_MIN, KAPPA_MAX = 1e5, 1e9


def _level_column(rng, m):
    """a NON-constant criterion of a LONG matrix that sits on a large level with a small spread, |mean| / std of 1e5 .. 1e9:
    prices around 1e6 .. 1e8 +- a few units (whole, or with cents / quarters), unix timestamps (seconds, whole or fractional) inside
    a window of 10 s .. 1 h, epoch milliseconds inside 20 s .. 3 h, base + s * u.  The deviations from the mean are small whole
    numbers / short doubles; the squares of the values need about twice the digits of a double"""
    for _ in range(200):
        kind = rng.choice(LEVEL_KINDS)
        if kind == "price":
            base = rng.choice([10 ** 6, 25 * 10 ** 5, 10 ** 7, 4 * 10 ** 7, 10 ** 8, 1999990, 12345678])
            h = rng.choice([2, 5, 12, 40, 150])
            den = rng.choice([1, 1, 4, 100])
            col = [float(base) + rng.randint(-h * den, h * den) / den for _ in range(m)]
        elif kind == "timestamp":
            t0 = rng.randint(12 * 10 ** 8, 19 * 10 ** 8)
            win = rng.choice([10, 60, 600, 3600])
            col = [float(t0 + rng.randint(0, win)) for _ in range(m)] if rng.random() < 0.5 else [t0 + rng.uniform(0, win) for _ in range(m)]
        elif kind == "epoch-ms":
            t0 = rng.randint(12 * 10 ** 11, 19 * 10 ** 11)
            win = rng.choice([2 * 10 ** 4, 10 ** 5, 10 ** 6, 10 ** 7])
            col = [float(t0 + rng.randint(0, win)) for _ in range(m)]
        else:
            sp = 10 ** rng.uniform(-2, 3)
            base = sp * 10 ** rng.uniform(5, 9)
            col = [base + sp * rng.uniform(-1.7, 1.7) for _ in range(m)]
        mu = math.fsum(col) / m
        sd = math.sqrt(math.fsum((x - mu) ** 2 for x in col) / m)
        if sd > 0 and KAPPA_MIN <= abs(mu) / sd <= KAPPA_MAX:
            return col
    raise RuntimeError("no large-level column")


def _long_matrix(rng, m, n, positive, alone):
    """alone: EVERY criterion sits on a large level; otherwise at least one does, next to at least one ordinary criterion"""
    big = [True] * n
    if not alone:
        big = [rng.random() < 0.5 for _ in range(n)]
        i, k = rng.sample(range(n), 2)
        big[i], big[k] = True, False
    fam = rng.choice(["dyadic", "float"])
    ordinary = G.matrix(rng, m, n, fam, positive, ties=rng.choice([0.0, 0.15]), dups=rng.choice([0.0, 0.05]))
    cols = []
    for j in range(n):
        if big[j]:
            col = _level_column(rng, m)
            if not positive and rng.random() < 0.15:
                col = [-x for x in col]  # debts, depths
            if rng.random() < 0.3:
                for i in range(1, m):
                    if rng.random() < 0.1:
                        col[i] = col[rng.randrange(i)]
        else:
            col = [r[j] for r in ordinary]
        cols.append(col)
    return [[cols[j][i] for j in range(n)] for i in range(m)], big


def _long_labels(rng, m):
    """m distinct alternative labels (the shared pool is shorter than a long matrix)"""
    stem = rng.choice(["A", "alt", "item-", "SKU", "x_"])
    fmt = rng.choice(["%d", "%04d"])
    return [stem + fmt % i for i in rng.sample(range(1, 10 * m), m)]


def _is_level(family):
    """the long / large-level family: conditioning bounds relative to the spread (exact_weights(level=True))"""
    return str(family).startswith("long")


NARROW_DTYPES = ["uint8", "uint16", "uint32", "uint64", "int8", "int16"]
NARROW_CYCLE = ["StdWeighter", "CRITIC", "StdWeighter", "EntropyWeighter", "StdWeighter", "EqualWeighter", "StdWeighter", "CRITIC"]
ZERO_CYCLE = ["EqualWeighter", "StdWeighter", "EntropyWeighter", "CRITIC"]
ZERO_FAMILIES = [None, "narrow", None, "int", "lowcv"]
ZERO_MODES = ["first", "second", "both"]


def _narrow_range(dtype):
    info = np.iinfo(np.dtype(dtype))
    return int(info.min), int(info.max)


def _narrow_column(rng, m, dtype, positive):
    """whole numbers as they are held in a narrow / unsigned integer type: unsigned - pixel intensities and percentages (uint8),
    Likert answers, counts, sensor readings, identifiers up to the top of the type (never beyond 2^53: every cell is also a
    double); signed (int8 / int16) - readings over the whole range of the type.  In every criterion the difference of some two
    cells is not representable in the type"""
    lo_t, hi_t = _narrow_range(dtype)
    hi_t = min(hi_t, 2 ** 53)
    lo = 1 if positive else 0
    if lo_t == 0:
        kind = rng.choice(["full", "full", "top", "percent", "likert", "counts"])
        if kind == "full":
            col = [rng.randint(lo, hi_t) for _ in range(m)]
        elif kind == "top":  # values close to the top of the type (saturated sensors, large identifiers)
            a = hi_t - rng.randint(1, max(2, hi_t // rng.choice([2, 4, 16])))
            col = [rng.randint(max(lo, a), hi_t) for _ in range(m)]
        elif kind == "percent":
            col = [rng.randint(lo, 100) for _ in range(m)]
        elif kind == "likert":
            col = [rng.randint(1, rng.choice([5, 7, 10])) for _ in range(m)]
        else:
            col = [rng.randint(lo, min(hi_t, 10 ** rng.randint(2, 15))) for _ in range(m)]
    else:
        kind = rng.choice(["full", "full", "wide"])
        if kind == "full":
            col = [rng.randint(lo_t, hi_t) for _ in range(m)]
        else:
            a, b = rng.randint(lo_t, lo_t // 2), rng.randint(hi_t // 2, hi_t)
            col = [rng.randint(a, b) for _ in range(m)]
            i, k = rng.sample(range(m), 2)
            col[i], col[k] = a, b
    return col


def _wraps(col, dtype):
    """the difference of some two cells of the criterion is not representable in the storage type"""
    lo_t, hi_t = _narrow_range(dtype)
    if lo_t == 0:
        return max(col) > min(col)
    return max(col) - min(col) > hi_t


def _narrow_matrix(rng, m, n, dtype, positive):
    """every criterion stored in ONE narrow / unsigned integer type; None when some criterion has no unrepresentable difference"""
    cols = []
    for _ in range(n):
        col = _narrow_column(rng, m, dtype, positive)
        for i in range(1, m):
            if rng.random() < 0.08:
                col[i] = col[rng.randrange(i)]
        if not _wraps(col, dtype):
            return None
        cols.append([float(x) for x in col])
    return [[cols[j][i] for j in range(n)] for i in range(m)]


def _zero_weights(rng, n, family):
    """an incoming weight vector with EXACT zeros next to positive entries (criteria the decision maker switched off, a 0/1 mask,
    a sparse hand-written vector): a non-empty strict subset of the positions is 0.0 (sometimes -0.0)"""
    how = rng.randrange(5)
    if how == 0:  # shares that sum to 1, some of them zero: [0.5, 0, 0.25, 0.25]
        k = [rng.randint(1, 8) for _ in range(n)]
        w = [x / 16 for x in k]
    elif how == 1:  # 0/1 mask
        w = [1.0] * n
    elif how == 2:
        c = rng.choice([3.5, 0.5, 2.0, 0.1, 100.0, 1.0 / n])
        w = [c] * n
    else:
        w = G.weights(rng, n, "dyadic" if family == "dyadic" else "float")
    nz = rng.choice([1, 1, rng.randint(1, n - 1), n - 1])
    for j in rng.sample(range(n), nz):
        w[j] = -0.0 if rng.random() < 0.1 else 0.0
    if how == 0:
        tot = sum(w)
        w = [x / tot if x else x for x in w]
    return w


WEIGHT_KINDS = ["distinct", "distinct", "distinct", "absent", "ones", "const", "const", "1/n", "base/n", "otherbase/n", "partly-tied"]


def _incoming(rng, n, family, spec, kind=None):
    """incoming weight vector of a decision matrix: the weighters must not look at it at all.  Returns (kind, vector | None);
    None = the matrix is built WITHOUT weights (the library's default: all ones)"""
    kind = kind or rng.choice(WEIGHT_KINDS)
    b = float(spec.get("base_value", 1.0))
    if kind == "absent":
        return kind, None
    if kind == "with-zeros":
        return kind, _zero_weights(rng, n, family)
    if kind == "ones":
        return kind, [1.0] * n
    if kind == "const":
        c = rng.choice([3.5, 0.5, 2.0, rng.randint(1, 80) / 8, math.ldexp(rng.uniform(0.5, 1.0), rng.randint(-4, 3)), 0.1, 100.0])
        return kind, [c] * n
    if kind == "1/n":
        return kind, [1.0 / n] * n
    if kind == "base/n":
        return kind, [b / n] * n
    if kind == "otherbase/n":
        c = rng.choice([b * 2, b / 2, b + 1.0, float(rng.randint(2, 9)), rng.randint(1, 64) / 8])
        return kind, [c / n] * n
    w = G.weights(rng, n, "dyadic" if family == "dyadic" else "float")
    if kind == "partly-tied":
        for j in range(1, n):
            if j == 1 or rng.random() < 0.5:
                w[j] = w[rng.randrange(j)]
    return kind, w


def _cap(spec, family):
    """largest conditioning bound of a generated configuration.  EntropyWeighter on the tiny-relative-spread family: the bound is
    1 / sum(1 - H) and every 1 - H is 1e-9 .. 1e-5 there BY CONSTRUCTION (that is the family), so the bound is 1e4 .. 1e6; the
    tolerance rule itself (1e-9 * bound) is the same everywhere, and below 1e-3 of the total also at the cap"""
    if spec["cls"] == "EntropyWeighter" and str(family).startswith("lowcv"):
        return MAX_SCALE_LOWCV_ENTROPY
    return MAX_SCALE


def _in_domain(spec, A, objs, cap=None, level=False):
    """the configuration is inside the generated domain (formula defined, well conditioned, ranks of the scaled matrix stable)"""
    w, scale = exact_weights(spec, A, objs, level)
    if w is None or scale > (MAX_SCALE if cap is None else cap):
        return False
    if spec["cls"] == "CRITIC" and spec["scale"]:
        cz = _cenit(A, objs)
        if cz is None or not _columns_ok([[float(x) for x in r] for r in cz], False):
            return False
    return True


def _other_spec(rng, spec):
    """another parameterisation of the same weighter class (None when the class has no parameter)"""
    if spec["cls"] == "CRITIC":
        combos = [(c, s) for c in ("pearson", "spearman") for s in (True, False) if (c, s) != (spec["correlation"], spec["scale"])]
        c, s = rng.choice(combos)
        return {"cls": "CRITIC", "correlation": c, "scale": s}
    if spec["cls"] == "EqualWeighter":
        b = spec["base_value"]
        cand = [b * 2, b / 2, b + 1.0, float(rng.randint(2, 9)), rng.randint(1, 64) / 8, 1.0]
        rng.shuffle(cand)
        return {"cls": "EqualWeighter", "base_value": next(x for x in cand if x != b)}
    return None


def _sequence(rng, spec, A, objs, family=None):
    """follow-up evaluations on the same matrix values, in one process: other objectives (a strict, non-empty subset of the
    senses flipped), another parameterisation under both objective vectors, then the first configuration again"""
    n = len(objs)
    for _ in range(12):
        flip = set(rng.sample(range(n), rng.randint(1, n - 1)))
        objs2 = [-o if j in flip else o for j, o in enumerate(objs)]
        spec2 = _other_spec(rng, spec)
        steps = [{"spec": spec, "objectives": objs2}]
        if spec2 is not None:
            steps += [{"spec": spec2, "objectives": objs2}, {"spec": spec2, "objectives": list(objs)}]
        if all(_in_domain(st["spec"], A, st["objectives"], _cap(st["spec"], family), _is_level(family)) for st in steps):
            return steps + [{"spec": spec, "objectives": list(objs)}]
    return None


def one_case(rng, max_m=12, family=None, cls=None, max_long=320, storage=None, zeros=None):
    """family / cls: forced matrix family ("int": whole-number raw data, "lowcv": criteria with a tiny relative spread, "long":
    101 .. max_long alternatives, criteria on a large level with a small spread, "narrow": every criterion stored in the narrow /
    unsigned integer type `storage`) and weighter class; None = drawn.  zeros: "first" / "second" / "both" - which incoming
    weight vector(s) hold exact zeros next to positive entries"""
    forced = family
    sub = rng.random()  # drawn once per case: rejection (conditioning caps) must not shift the shares of the sub-families
    for _ in range(400):
        spec = _spec(rng, cls)
        n = rng.randint(2, 6)
        m = rng.choice([k for k in range(3, max_m + 1) if k != n])
        family = forced or rng.choice(["dyadic", "dyadic", "float", "unit", "unit"])
        positive = spec["cls"] == "EntropyWeighter" or rng.random() < 0.6
        objs = G.objectives(rng, n, rng.choice(["max", "min", "mixed", "mixed", "mixed"]))
        declared, int_build, dtype = None, None, None
        if family == "narrow":
            dtype = storage or rng.choice(NARROW_DTYPES)
            if spec["cls"] == "EntropyWeighter" and dtype.startswith("int"):
                dtype = "u" + dtype  # positive cells: no two of them are further apart than a signed type can hold
            positive = positive and dtype.startswith("u")
            rows = _narrow_matrix(rng, m, n, dtype, positive)
            if rows is None:
                continue
            declared = ["int"] * n
            family = "narrow:" + dtype
            # how the typed whole numbers reach mkdm: an np.array of that dtype / a float array + dtypes=[that dtype] * n
            int_build = "nparray" if sub < 0.75 else "dtypes="
        elif family == "int":
            mixed = sub < 1 / 3
            rows, is_int = _int_matrix(rng, m, n, positive, mixed)
            declared = ["int" if x else "float" for x in is_int]
            family = "int:mixed" if mixed else "int:all"
            # how the whole numbers reach mkdm: nested lists of Python ints / an integer numpy array / float array + dtypes=
            int_build = rng.choice(["pyint", "npint", "dtypes"]) if not mixed else "dtypes"
        elif family == "lowcv":
            alone = sub < 0.5
            rows, low = _lowcv_matrix(rng, m, n, positive, alone)
            family = "lowcv:alone" if alone else "lowcv:mixed"
        elif family == "long":
            m = int(round(10 ** rng.uniform(math.log10(101), math.log10(max_long))))
            alone = sub < 0.5 and spec["cls"] != "EntropyWeighter"  # entropy: 1 - H of such a criterion is below rounding
            rows, big = _long_matrix(rng, m, n, positive, alone)
            family = "long:alone" if alone else "long:mixed"
        elif family == "unit":
            rows, ukind = _unit_matrix(rng, m, n, positive, ties=rng.choice([0.0, 0.15, 0.4]))
            if rows is None:
                continue
            family = "unit:" + ukind
        else:
            rows = G.matrix(rng, m, n, family, positive, ties=rng.choice([0.0, 0.15, 0.4]), dups=rng.choice([0.0, 0.1]))
        if family == "dyadic" and rng.random() < 0.5:
            # integer-valued criteria, declared int
            for j in range(n):
                if rng.random() < 0.5:
                    for i in range(m):
                        rows[i][j] = float(math.floor(rows[i][j] * 2) + (1 if positive else 0))
        if not _columns_ok(rows, spec["cls"] == "EntropyWeighter"):
            continue
        A = [[C.F(x) for x in r] for r in rows]
        w, scale = exact_weights(spec, A, objs, _is_level(family))
        if w is None or scale > _cap(spec, family):
            continue  # formula undefined (0/0) or ill-conditioned: outside the generated domain
        if spec["cls"] == "CRITIC" and spec["scale"]:
            cz = _cenit(A, objs)
            if cz is None or not _columns_ok([[float(x) for x in r] for r in cz], False):
                continue
        dtypes = ["int" if all(float(r[j]).is_integer() for r in rows) and rng.random() < 0.6 else "float" for j in range(n)]
        if declared is not None:
            dtypes = declared
        elif family.startswith(("lowcv", "long")) and rng.random() < 0.4:  # every whole-number criterion declared int
            dtypes = ["int" if all(float(r[j]).is_integer() for r in rows) else "float" for j in range(n)]
        seq = _sequence(rng, spec, A, objs, family)
        if seq is None:
            continue
        wk1, w1 = _incoming(rng, n, family, spec, "with-zeros" if zeros in ("first", "both") else None)
        wk2, w2 = _incoming(rng, n, family, spec, "with-zeros" if zeros in ("second", "both") else None)
        if zeros in ("second", "both"):
            for _ in range(50):  # the second vector differs from the first (other positions switched off, or other positive entries)
                if w2 != w1 and (n == 2 or w1 is None or [x == 0 for x in w2] != [x == 0 for x in w1] or zeros == "second"):
                    break
                wk2, w2 = _incoming(rng, n, family, spec, "with-zeros")
            if w2 == w1:
                continue
        elif wk2 == "absent" or w2 == w1:  # the second vector is always written out, and differs from the first
            wk2, w2 = "distinct", G.weights(rng, n, "dyadic" if family == "dyadic" else "float")
            if w2 == w1:
                w2 = [x * 2 + 0.0625 for x in w2]
        rp = list(range(m))
        cp = list(range(n))
        while rp == list(range(m)) or (dtype and rp[0] == 0):  # narrow storage: the permuted presentation starts with another alternative
            rng.shuffle(rp)
        while cp == list(range(n)):
            rng.shuffle(cp)
        return {
            "kind": "weigh", "spec": spec,
            "dm": {"matrix": rows, "objectives": objs, "weights": w1 if w1 is not None else [1.0] * n, "no_weights": w1 is None,
                   "weights_kind": wk1, "weights2_kind": wk2, "alternatives": G.labels(rng, G.LABEL_POOL_ALT, m) if m <= len(G.LABEL_POOL_ALT) else _long_labels(rng, m),
                   "criteria": G.labels(rng, G.LABEL_POOL_CRIT, n), "dtypes": dtypes, "family": family,
                   **({"int_build": int_build} if int_build else {}), **({"dtype": dtype} if dtype else {})},
            "row_perm": rp, "col_perm": cp, "weights2": w2, "seq": seq,
        }
    raise RuntimeError("generator could not produce an in-domain case")


def gen(ctx):
    """two cases in five are forced: whole-number raw data (ALL criteria integer typed 2/3, int next to float 1/3) and criteria
    with a tiny relative spread (alone 1/2, next to ordinary criteria 1/2), each with the weighter classes cycled so that every
    weighter sees both in every tier; on top of them, spread evenly, the LONG matrices on a large level (36 quick / 360 thorough);
    then two dedicated loops with their own counts (40 quick / 400 thorough each): criteria ALL stored in one narrow / unsigned
    integer type (types and weighter classes cycled), and incoming weights with EXACT ZEROS next to positive ones (first / second /
    both vectors, weighter classes and matrix families cycled)"""
    rng = ctx.rng
    cases, k = [], 0
    n_main, n_long = ctx.n(300, 5000), ctx.n(36, 360)
    every = n_main // n_long
    for i in range(n_main):
        if i % every == 0 and i // every < n_long:
            # a LONG matrix on a large level: StdWeighter and CRITIC (standard deviations) most often, every class in every tier
            cases.append(one_case(rng, family="long", cls=LONG_CYCLE[(i // every) % len(LONG_CYCLE)], max_long=ctx.n(320, 600)))
        forced = {3: "int", 4: "lowcv"}.get(i % 5)
        if forced:
            cases.append(one_case(rng, max_m=ctx.n(10, 14), family=forced, cls=SPEC_CYCLE[(k // 2) % len(SPEC_CYCLE)]))
            k += 1
        else:
            cases.append(one_case(rng, max_m=ctx.n(10, 14)))
    for i in range(ctx.n(40, 400)):
        # ALL criteria stored in one narrow / unsigned integer type whose subtraction wraps around on these cells
        cases.append(one_case(rng, max_m=ctx.n(10, 14), family="narrow", cls=NARROW_CYCLE[i % len(NARROW_CYCLE)],
                              storage=NARROW_DTYPES[(i + i // len(NARROW_DTYPES)) % len(NARROW_DTYPES)]))
    for i in range(ctx.n(40, 400)):
        # incoming weights with exact zeros next to positive ones
        cases.append(one_case(rng, max_m=ctx.n(10, 14), family=ZERO_FAMILIES[i % len(ZERO_FAMILIES)], cls=ZERO_CYCLE[i % len(ZERO_CYCLE)],
                              zeros=ZERO_MODES[(i // len(ZERO_CYCLE)) % len(ZERO_MODES)]))
    return cases


# ----------------------------------------------------------------------------- implementation side


def _mk(dm, rows=None, cols=None, weights=None):
    import skcriteria as skc

    m, n = len(dm["matrix"]), len(dm["objectives"])
    rows = list(range(m)) if rows is None else rows
    cols = list(range(n)) if cols is None else cols
    absent = weights is None and dm.get("no_weights")  # built WITHOUT weights: the library's default (all ones) applies
    w = dm["weights"] if weights is None else weights
    mat = np.array([[dm["matrix"][i][j] for j in cols] for i in rows], dtype=float)
    dts = dm.get("dtypes") or ["float"] * n
    build = dm.get("int_build")
    if dm.get("dtype"):
        # every criterion held in ONE narrow / unsigned integer type, as the user holds it: np.array(..., dtype=...) handed to mkdm
        # (or a float array with dtypes=[that type] * n)
        dt = np.dtype(dm["dtype"])
        ints = [[int(dm["matrix"][i][j]) for j in cols] for i in rows]
        with warnings.catch_warnings():
            warnings.simplefilter("ignore")
            out = skc.mkdm(
                np.array(ints, dtype=dt) if build != "dtypes=" else mat, [dm["objectives"][j] for j in cols],
                weights=None if absent else np.array([w[j] for j in cols], dtype=float),
                alternatives=[dm["alternatives"][i] for i in rows], criteria=[dm["criteria"][j] for j in cols],
                **({"dtypes": [dt] * len(cols)} if build == "dtypes=" else {}),
            )
        if not all(t == dt for t in out.dtypes.to_numpy()) or out.matrix.to_numpy().dtype != dt:
            raise AssertionError("criteria are not stored in the integer type they were handed over in")
        if [[int(x) for x in r] for r in out.matrix.to_numpy().tolist()] != ints:
            raise AssertionError("stored cells differ from the whole numbers handed over")
        return out
    if build in ("pyint", "npint") and all(t == "int" for t in dts):
        # raw whole-number data as the user holds it: nested lists of Python ints / an integer numpy array, no dtypes= given
        ints = [[int(dm["matrix"][i][j]) for j in cols] for i in rows]
        with warnings.catch_warnings():
            warnings.simplefilter("ignore")
            out = skc.mkdm(
                ints if build == "pyint" else np.array(ints, dtype=np.int64), [dm["objectives"][j] for j in cols],
                weights=None if absent else np.array([w[j] for j in cols], dtype=float),
                alternatives=[dm["alternatives"][i] for i in rows], criteria=[dm["criteria"][j] for j in cols],
            )
        if not all(np.issubdtype(t, np.integer) for t in out.dtypes.to_numpy()):
            raise AssertionError("whole-number data did not give integer-typed criteria")
        return out
    with warnings.catch_warnings():
        warnings.simplefilter("ignore")
        return skc.mkdm(
            mat, [dm["objectives"][j] for j in cols], weights=None if absent else np.array([w[j] for j in cols], dtype=float),
            alternatives=[dm["alternatives"][i] for i in rows], criteria=[dm["criteria"][j] for j in cols],
            dtypes=[int if dts[j] == "int" else float for j in cols],
        )


def _build(spec):
    from skcriteria.preprocessing import weighters as W

    cls = spec["cls"]
    if cls == "EqualWeighter":
        return W.EqualWeighter(base_value=spec["base_value"])
    if cls == "StdWeighter":
        return W.StdWeighter()
    if cls == "EntropyWeighter":
        return W.EntropyWeighter()
    if cls == "CRITIC":
        return W.CRITIC(correlation=spec["correlation"], scale=spec["scale"])
    raise ValueError(cls)


def _snapshot(dm):
    """every part a weighter must leave alone, as bytes / exact values"""
    return {
        "matrix": [(str(c), str(dm.matrix[c].to_numpy().dtype), dm.matrix[c].to_numpy().tobytes().hex()) for c in dm.matrix.columns],
        "matrix_f": dm.matrix.to_numpy().tobytes().hex(),
        "objectives": [int(o.value) for o in dm.objectives],
        "iobjectives": dm.iobjectives.to_numpy().tobytes().hex(),
        "alternatives": [str(a) for a in dm.alternatives],
        "criteria": [str(c) for c in dm.criteria],
        "dtypes": [str(t) for t in dm.dtypes],
    }


def _by_label(dm):
    return {str(c): float(v) for c, v in zip(dm.criteria, dm.weights.to_numpy())}


def observe(case):
    with warnings.catch_warnings():
        warnings.simplefilter("ignore")
        d = case["dm"]
        obs = {}
        try:
            W = _build(case["spec"])
            dm = _mk(d)
            before = _snapshot(dm)
            w_before = dm.weights.to_numpy().tobytes().hex()
            t = W.transform(dm)
            obs["weights"] = [float(x) for x in t.weights.to_numpy()]
            obs["labels"] = [str(c) for c in t.criteria]
            after_t = _snapshot(t)
            after_in = _snapshot(dm)
            obs["frame_diff"] = [k for k in before if before[k] != after_t[k]]
            obs["input_diff"] = [k for k in before if before[k] != after_in[k]] + (
                ["weights"] if dm.weights.to_numpy().tobytes().hex() != w_before else [])
            obs["type"] = type(t).__name__
            obs["rows"] = _by_label(W.transform(_mk(d, rows=case["row_perm"])))
            obs["cols"] = _by_label(W.transform(_mk(d, cols=case["col_perm"])))
            obs["both"] = _by_label(W.transform(_mk(d, rows=case["row_perm"], cols=case["col_perm"])))
            obs["w2"] = _by_label(W.transform(_mk(d, weights=case["weights2"])))
            obs["fresh"] = _by_label(_build(case["spec"]).transform(_mk(d)))
            # the sequence: same matrix values, same process, other objectives / parameters, then the first configuration again
            built = [(case["spec"], W)]
            obs["seq"] = []
            for st in case.get("seq", []):
                Ws = next((o for sp, o in built if sp == st["spec"]), None)
                if Ws is None:
                    Ws = _build(st["spec"])
                    built.append((st["spec"], Ws))
                dms = _mk(dict(d, objectives=st["objectives"]))
                b4 = _snapshot(dms)
                ts = Ws.transform(dms)
                aft = _snapshot(ts)
                obs["seq"].append({"weights": [float(x) for x in ts.weights.to_numpy()], "labels": [str(c) for c in ts.criteria],
                                   "frame_diff": [k for k in b4 if b4[k] != aft[k]]})
        except Exception as e:
            return {"err": G.err_name(e), "msg": str(e)[:200]}
        return obs


# ----------------------------------------------------------------------------- model side

METHOD = {"EqualWeighter": "equal", "StdWeighter": "std", "EntropyWeighter": "entropy", "CRITIC": "critic"}


def _req(case, domain, spec=None, objectives=None):
    d = case["dm"] if objectives is None else dict(case["dm"], objectives=objectives)
    spec = case["spec"] if spec is None else spec
    enc = C.rat if domain == "rat" else C.fbits
    r = {"op": "weigh", "method": METHOD[spec["cls"]], "domain": domain, "M": [[enc(x) for x in row] for row in d["matrix"]],
         "O": ["max" if o == 1 else "min" for o in d["objectives"]], "w": [enc(x) for x in d["weights"]]}
    if spec["cls"] == "EqualWeighter":
        r["base_value"] = enc(spec["base_value"])
    if spec["cls"] == "CRITIC":
        r["correlation"] = spec["correlation"]
        r["scale"] = bool(spec["scale"])
    return r


MODEL_SPEARMAN_BUDGET = 120_000


def _model_affordable(case, spec):
    """the compiled model's Spearman correlation costs about 5 us * (alternatives * criteria)^2 (half a minute for 400 x 6): on
    the LONG matrices a Spearman evaluation is run on the model only below 120000 (alternatives * criteria)^2 (101..173 x 2,
    101..115 x 3); the other long Spearman evaluations are judged by the property oracle (exact evaluation) alone.  Every other
    evaluation of every case is run on the model"""
    d = case["dm"]
    if not _is_level(d.get("family")) or spec["cls"] != "CRITIC" or spec["correlation"] != "spearman":
        return True
    return (len(d["matrix"]) * len(d["objectives"])) ** 2 <= MODEL_SPEARMAN_BUDGET


def _model_plan(case):
    """the evaluations that are also run on the Lean model, in request order: "first", "rat" (EqualWeighter, exact), sequence index"""
    plan = ["first"] if _model_affordable(case, case["spec"]) else []
    if case["spec"]["cls"] == "EqualWeighter":
        plan.append("rat")
    plan += [i for i, st in enumerate(case.get("seq", [])) if _model_affordable(case, st["spec"])]
    return plan


def requests(case, obs):
    if "err" in obs:
        return []
    reqs = []
    for key in _model_plan(case):
        if key == "first":
            reqs.append(_req(case, "float"))
        elif key == "rat":
            reqs.append(_req(case, "rat"))
        else:
            st = case["seq"][key]
            reqs.append(_req(case, "float", st["spec"], st["objectives"]))
    return reqs


# ----------------------------------------------------------------------------- judgement


def _name(spec):
    if spec["cls"] == "CRITIC":
        return f"CRITIC({spec['correlation']}, scale={spec['scale']})"
    if spec["cls"] == "EqualWeighter":
        return f"EqualWeighter({spec['base_value']!r})"
    return spec["cls"]


def _oracle(spec, A, objs, crit, w, exact, tol, prop, corr, where):
    """normalisation and the published formula, for one (matrix, objectives, parameters) -> weights evaluation"""
    n = len(crit)
    # (1) normalisation
    if spec["cls"] == "EqualWeighter":
        want = C.F(spec["base_value"]) / n
        bad = [j for j in range(n) if abs(D(w[j]) - D(want)) > D(tol)]
        if bad:
            prop(where + "a criterion does not get base_value / (number of criteria)", {"each": float(want), "n_criteria": n, "tol": tol}, w)
    else:
        neg = [j for j in range(n) if w[j] < -tol]
        if neg:
            prop(where + "negative weight", ">= 0", {crit[j]: w[j] for j in neg})
        tot = sum((D(x) for x in w), Decimal(0))
        if abs(tot - 1) > D(tol):
            prop(where + "weights do not sum to 1", 1.0, float(tot))
    # (2) the published formula
    if exact is None:
        corr(where + "case outside the domain of the formula (zero total): generator guard failed", None, w)
    else:
        bad = [j for j in range(n) if abs(D(w[j]) - exact[j]) > D(tol)]
        if bad:
            j = bad[0]
            prop(where + "weight differs from the published formula (independent exact evaluation)",
                 {"criterion": crit[j], "objectives": list(objs), "exact": str(exact[j])[:30], "all_exact": [float(x) for x in exact],
                  "tol": tol}, w)


def judge(case, obs, replies):
    out = []
    spec, d = case["spec"], case["dm"]
    name = _name(spec)

    def prop(what, expected=None, observed=None):
        out.append({"kind": "property", "what": f"{name}: {what}", "expected": expected, "observed": observed})

    def corr(what, expected=None, observed=None):
        out.append({"kind": "correspondence", "what": f"{name}: {what}", "expected": expected, "observed": observed})

    if "err" in obs:
        prop(f"an in-domain decision matrix was refused with {obs['err']}: {obs.get('msg')}")
        return out
    A = [[C.F(x) for x in r] for r in d["matrix"]]
    n = len(d["objectives"])
    crit = d["criteria"]
    level = _is_level(d.get("family"))
    exact, scale = exact_weights(spec, A, d["objectives"], level)
    tol = TOL * scale
    w = obs["weights"]

    # the transformed matrix carries the same criteria, in the same order
    if obs["labels"] != crit or len(w) != n:
        prop("criteria of the transformed matrix differ from the input's", crit, obs["labels"])
        return out
    if not all(math.isfinite(x) for x in w):
        prop("weights are not finite", "finite weights", w)
        return out
    # (1) normalisation and (2) the published formula
    _oracle(spec, A, d["objectives"], crit, w, exact, tol, prop, corr, "")
    # (3) order-independence and independence of the incoming weights, by criterion name
    base = dict(zip(crit, w))
    for key, what in (("rows", "alternatives listed in another order"), ("cols", "criteria listed in another order"),
                      ("both", "alternatives and criteria listed in another order"), ("w2", "other incoming weights"),
                      ("fresh", "a second, freshly built weighter")):
        other = obs[key]
        if set(other) != set(base):
            prop(f"{what}: criteria differ", sorted(base), sorted(other))
            continue
        bad = [c for c in crit if not math.isfinite(other[c]) or abs(other[c] - base[c]) > tol]
        if bad:
            prop(f"{what}: the weight attached to criterion {bad[0]!r} changes", {c: base[c] for c in crit}, {c: other[c] for c in crit})
    # (4) matrix, objectives, labels, dtypes untouched (bit-identical), input not mutated
    if obs["frame_diff"]:
        prop("the transformed decision matrix differs from the input in " + ", ".join(obs["frame_diff"]), "bit-identical", obs["frame_diff"])
    if obs["input_diff"]:
        prop("transform() mutated its input: " + ", ".join(obs["input_diff"]), "untouched", obs["input_diff"])
    if obs["type"] != "DecisionMatrix":
        prop("transform() did not return a DecisionMatrix", "DecisionMatrix", obs["type"])

    # (5) the sequence: the same matrix values evaluated again in the same process under other objectives / parameters; each result
    #     answers for its own inputs, and coming back to the first configuration gives the first result
    seq = case.get("seq", [])
    seq_obs = obs.get("seq", [])
    seq_tols = []
    for i, (st, so) in enumerate(zip(seq, seq_obs)):
        s_spec, s_objs = st["spec"], st["objectives"]
        where = (f"evaluation {i + 2} of a sequence on the same matrix values in one process "
                 f"[{_name(s_spec)}, objectives {s_objs}; first evaluation {name}, objectives {d['objectives']}]: ")
        s_exact, s_scale = exact_weights(s_spec, A, s_objs, level)
        s_tol = TOL * s_scale
        seq_tols.append(s_tol)
        sw = so["weights"]
        if so["labels"] != crit or len(sw) != n:
            prop(where + "criteria of the transformed matrix differ from the input's", crit, so["labels"])
            continue
        if not all(math.isfinite(x) for x in sw):
            prop(where + "weights are not finite", "finite weights", sw)
            continue
        _oracle(s_spec, A, s_objs, crit, sw, s_exact, s_tol, prop, corr, where)
        if so["frame_diff"]:
            prop(where + "the transformed decision matrix differs from its input in " + ", ".join(so["frame_diff"]), "bit-identical",
                 so["frame_diff"])
        if s_spec == spec and list(s_objs) == list(d["objectives"]):
            bad = [c for c, x, y in zip(crit, w, sw) if abs(x - y) > tol]
            if bad:
                prop(where + f"the first configuration evaluated again gives another weight for criterion {bad[0]!r}",
                     dict(zip(crit, w)), dict(zip(crit, sw)))
    if len(seq_obs) != len(seq):
        corr("sequence observations missing", len(seq), len(seq_obs))

    # correspondence with the Lean model
    by_key = dict(zip(_model_plan(case), replies))
    if "first" in by_key:
        rep = by_key["first"]
        mv = rep.get("weights")
        if mv is None or len(mv) != n:
            corr("model returned no weights", None, rep)
        else:
            vals = [C.unfbits(x) for x in mv]
            if any(not math.isfinite(v) or abs(v - a) > tol for v, a in zip(vals, w)):
                corr("weights, Lean model (Float) vs implementation", vals, w)
    if "rat" in by_key:
        mv = by_key["rat"].get("weights")
        if mv is None or len(mv) != n:
            corr("model (Rat) returned no weights", None, by_key["rat"])
        else:
            vals = [C.frac(x) for x in mv]
            if any(abs(D(v) - D(a)) > D(tol) for v, a in zip(vals, w)):
                corr("weights, Lean model (exact Rat) vs implementation", [float(v) for v in vals], w)
    for i, (st, so, s_tol) in enumerate(zip(seq, seq_obs, seq_tols)):
        if i not in by_key:
            continue
        mv = by_key[i].get("weights")
        sw = so["weights"]
        if mv is None or len(mv) != n:
            corr(f"model returned no weights for evaluation {i + 2} of the sequence", None, by_key[i])
        elif len(sw) == n:
            vals = [C.unfbits(x) for x in mv]
            if any(not math.isfinite(v) or not math.isfinite(a) or abs(v - a) > s_tol for v, a in zip(vals, sw)):
                corr(f"weights, Lean model (Float) vs implementation, evaluation {i + 2} of the sequence "
                     f"[{_name(st['spec'])}, objectives {st['objectives']}]", vals, sw)
    return out


def nontrivial(case, obs):
    if "err" in obs:
        return False
    w = obs["weights"]
    return case["spec"]["cls"] == "EqualWeighter" or max(w) - min(w) > 1e-6


def tags(case, obs):
    spec, d = case["spec"], case["dm"]
    o = d["objectives"]
    t = ["method:" + (_name(spec) if spec["cls"] != "EqualWeighter" else "EqualWeighter"), "family:" + d["family"],
         "objs:" + ("max" if all(x == 1 for x in o) else "min" if all(x == -1 for x in o) else "mixed"),
         "n_crit:%d" % len(o),
         "n_alt:%s" % ("3-5" if len(d["matrix"]) <= 5 else "6-9" if len(d["matrix"]) <= 9 else "10+" if len(d["matrix"]) <= 100 else
                       "101-200" if len(d["matrix"]) <= 200 else "201+")]
    if any(len(set(c)) < len(c) for c in _cols(d["matrix"])):
        t.append("ties-in-a-criterion")
    if d.get("dtype"):
        t.append("ALL-criteria-stored-as:" + d["dtype"])
        t.append("narrow-storage:first-alternative-not-the-smallest:" + (
            "some-criterion" if any(c[0] > min(c) for c in _cols(d["matrix"])) else "no-criterion"))
    for key in ("weights", "weights2"):
        v = d["weights"] if key == "weights" else case.get("weights2")
        if v and not (key == "weights" and d.get("no_weights")) and any(x == 0 for x in v):
            t.append(("incoming" if key == "weights" else "second-incoming") + "-weights:exact-zeros:%s" % (
                "all-but-one" if sum(1 for x in v if x != 0) == 1 else "some"))
    if "int" in d["dtypes"]:
        t.append("int-dtype-criterion")
    if all(x == "int" for x in d["dtypes"]):
        t.append("ALL-criteria-int-dtype:" + d.get("int_build", "dtypes"))
        if spec["cls"] == "EqualWeighter" and not (C.F(spec["base_value"]) / len(o)).denominator == 1:
            t.append("ALL-int+EqualWeighter-base/n-not-whole")
    elif "int" in d["dtypes"]:
        t.append("mixed-int-float-dtypes")
    if not obs.get("err") and spec["cls"] == "EntropyWeighter":
        hs = _entropy_divergences([[C.F(x) for x in r] for r in d["matrix"]])
        k = sum(1 for h in hs if h < 1e-5)
        if k:
            t.append("entropy:1-H<1e-5:" + ("all-criteria" if k == len(hs) else "some-criteria"))
    cvs = [_cv(c) for c in _cols(d["matrix"])]
    if len(d["matrix"]) > 100 and min(cvs) > 0:
        kmax = 1.0 / min(cvs)
        if kmax >= KAPPA_MIN:
            t.append("long-matrix+large-level:|mean|/std:" + ("1e5-1e7" if kmax < 1e7 else "1e7-1e9"))
            t.append("long-matrix+large-level:" + ("all-criteria" if all(cv <= 1 / KAPPA_MIN for cv in cvs) else "some-criteria"))
    if any(cv < 5e-3 for cv in cvs):
        t.append("tiny-relative-spread:" + ("all-criteria" if all(cv < 5e-3 for cv in cvs) else "some-criteria"))
    if _is_level(d.get("family")):
        evals = [spec] + [st["spec"] for st in case.get("seq", [])]
        skipped = sum(1 for sp in evals if not _model_affordable(case, sp))
        t.append("long:evaluations-on-the-model:" + ("all" if not skipped else "all-but-%d-spearman" % skipped))
    t.append("incoming-weights:" + d.get("weights_kind", "distinct"))
    t.append("second-incoming-weights:" + d.get("weights2_kind", "distinct"))
    if all(0.0 <= x <= 1.0 for r in d["matrix"] for x in r):
        t.append("all-cells-in-unit-interval")
    seq = case.get("seq", [])
    if seq:
        k = sum(1 for a, b in zip(o, seq[0]["objectives"]) if a != b)
        t.append("seq:%d-evaluations" % (len(seq) + 1))
        t.append("seq:senses-flipped:%d-of-%d" % (k, len(o)))
        for st in seq:
            if st["spec"] != spec and st["spec"]["cls"] == "CRITIC":
                t.append("seq:other-" + "+".join(x for x in ("correlation", "scale") if st["spec"][x] != spec[x]))
                break
    return t
