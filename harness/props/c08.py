"""C08 — ELECTRE outranking relations, kernel and distillation follow their definition."""
from __future__ import annotations

from fractions import Fraction

import math

import numpy as np

import common as C
import gen as G
import methods as M

PID = "C08"
RULE = (
    "cases: non-constant decision matrices, weights summing to one, all objective mixes, ELECTRE1 (p, q) and ELECTRE2 (p0>=p1>=p2, "
    "q0>=q1) with default and random admissible thresholds. Two families: dyadic (values k/8 with the largest criterion range forced to "
    "a power of two, weights k/16, thresholds k/8: concordance / discordance are exact in binary64 and pairs fall EXACTLY on the "
    "thresholds) and arbitrary doubles (discrete outputs compared only when no value is within 1e-9 of a threshold). Oracle: exact "
    "Fraction evaluation of the definitions; discrete layers recomputed from the implementation's own numbers; independent Python "
    "distillation. Non-trivial: >= 3 alternatives; boundary hits are counted in the input distribution."
)
ASSUMPTIONS = ["'distillation' = what the code documents: strong kernel minus weak kernel, round by round; ties of the final score dense-ranked"]
PARTIAL = "IEEE rounding of the float family is handled by the off-boundary margin; the model states exact comparisons"
K1 = {"member": "matrix_wor", "explained_by": "worCode (objectives and weights exchanged at the call site)", "site": "skcriteria/agg/electre.py electre2 -> weights_outrank"}


def _dyadic_dm(rng, m, n):
    mat = [[rng.randint(0, 32) / 8 for _ in range(n)] for _ in range(m)]
    for j in range(n):
        for i in range(1, m):
            if rng.random() < 0.3:
                mat[i][j] = mat[rng.randrange(i)][j]
    j = rng.randrange(n)
    i0, i1 = rng.sample(range(m), 2)
    mat[i0][j], mat[i1][j] = 0.0, 4.0  # largest range = 4 exactly
    parts = sorted(rng.sample(range(1, 16), n - 1)) if n > 1 else []
    w = [(b - a) / 16 for a, b in zip([0] + parts, parts + [16])]
    return mat, w


def _float_dm(rng, m, n):
    mat = G.matrix(rng, m, n, "float", positive=False, ties=0.2, dups=0.1)
    if all(r == mat[0] for r in mat):
        mat[-1] = [v + 1.0 for v in mat[-1]]
    w = [rng.uniform(0.05, 1.0) for _ in range(n)]
    s = sum(w)
    return mat, [x / s for x in w]


def gen(ctx):
    rng = ctx.rng
    cases = []
    for _ in range(ctx.n(300, 6000)):
        m, n = rng.randint(2, ctx.n(8, 12)), rng.randint(1, 6)
        fam = rng.choice(["dyadic", "dyadic", "float"])
        mat, w = (_dyadic_dm if fam == "dyadic" else _float_dm)(rng, m, n)
        which = rng.choice(["ELECTRE1", "ELECTRE2"])
        spec = M.random_spec(rng, [which])
        dm = {"matrix": mat, "objectives": G.objectives(rng, n), "weights": w, "alternatives": G.labels(rng, G.LABEL_POOL_ALT, m),
              "criteria": G.labels(rng, G.LABEL_POOL_CRIT, n), "family": fam}
        if which == "ELECTRE2" and rng.random() < 0.3:
            # small whole numbers, 6-8 alternatives, permissive thresholds: distillations of three and more rounds
            m, n = rng.randint(6, 8), rng.randint(3, 5)
            mat = [[float(rng.randint(1, 8)) for _ in range(n)] for _ in range(m)]
            _, w = _dyadic_dm(rng, m, n)
            dm = {"matrix": mat, "objectives": G.objectives(rng, n), "weights": w, "alternatives": G.labels(rng, G.LABEL_POOL_ALT, m),
                  "criteria": G.labels(rng, G.LABEL_POOL_CRIT, n), "family": "dyadic"}
            if rng.random() < 0.6:
                spec = {"name": "ELECTRE2", "p0": 0.625, "p1": 0.5, "p2": 0.25, "q0": 0.875, "q1": 0.75}
        if fam == "dyadic" and rng.random() < 0.15:
            # the same problem in very small / very large units (an exact power of two): concordance and discordance are scale free
            k = 2.0 ** rng.choice([-50, -44, 40])
            dm = dict(dm, matrix=[[x * k for x in row] for row in dm["matrix"]], units=k)
        if rng.random() < 0.1:
            # the same kind of problem stored as narrow / unsigned integers: differences must not be taken in that dtype
            dm = M.narrow_int_variant(rng, dm)
            s = sum(dm["weights"])
            dm["weights"] = [wj / 2 ** math.ceil(math.log2(s)) for wj in dm["weights"]]  # exact rescaling into (0.5, 1]: still dyadic
        cases.append({"spec": spec, "dm": dm})
    return cases


def _thr(spec):
    if spec["name"] == "ELECTRE1":
        return {"p": spec.get("p", 0.65), "q": spec.get("q", 0.35)}
    d = {"p0": 0.65, "p1": 0.5, "p2": 0.35, "q0": 0.65, "q1": 0.35}
    d.update({k: v for k, v in spec.items() if k != "name"})
    return d


def _nanmat(a):
    a = np.asarray(a, dtype=float)
    return [[None if np.isnan(x) else float(x) for x in row] for row in a]


def observe(case):
    with M.quiet():
        dm = G.mkdm(case["dm"])
        dec = M.build(case["spec"])
        M.warmup(dec, dm, case["dm"], case["spec"])
        try:
            res = dec.evaluate(dm)
        except Exception as e:
            return {"err": G.err_name(e), "msg": str(e)[:200]}
        e = res.e_
        o = {"values": res.values.tolist(), "conc": _nanmat(e.matrix_concordance), "disc": _nanmat(e.matrix_discordance)}
        if case["spec"]["name"] == "ELECTRE1":
            o["outrank"] = np.asarray(e.outrank, dtype=bool).tolist()
        else:
            o.update(wor=np.asarray(e.matrix_wor, dtype=bool).tolist(), outrank_s=np.asarray(e.outrank_s, dtype=bool).tolist(),
                     outrank_w=np.asarray(e.outrank_w, dtype=bool).tolist(), direct=[int(x) for x in e.ranking_direct],
                     inverted=[int(x) for x in e.ranking_inverted], score=[float(x) for x in e.score])
        return o


def _optmat(mat):
    return [[None if x is None else C.rat(x) for x in row] for row in mat]


def requests(case, obs):
    if "err" in obs:
        return []
    dm, thr = case["dm"], _thr(case["spec"])
    base = {"M": C.ratmat(dm["matrix"]), "O": ["max" if o == 1 else "min" for o in dm["objectives"]], "w": C.rats(dm["weights"])}
    tq = {k: C.rat(v) for k, v in thr.items()}
    g = {"op": "electre-graphs", "concordance": _optmat(obs["conc"]), "discordance": _optmat(obs["disc"])}
    g.update(tq)
    if case["spec"]["name"] == "ELECTRE1":
        return [dict(base, op="electre1", **tq), g]
    g["wor"] = obs["wor"]
    return [dict(base, op="electre2", **tq), g, {"op": "electre2-post", "outrank_s": obs["outrank_s"], "outrank_w": obs["outrank_w"]}]


def _distill(S, W, m):
    """documented distillation, written independently: each round ranks the remaining alternatives that no remaining one
    strongly outranks and that some remaining one weakly outranks; if there is none, all remaining share the round's rank"""
    rank = [0] * m
    rem = list(range(m))
    r = 1
    while rem:
        ker = [j for j in rem if not any(S[i][j] for i in rem) and any(W[i][j] for i in rem)]
        if not ker:
            for j in rem:
                rank[j] = r
            break
        for j in ker:
            rank[j] = r
        rem = [j for j in rem if j not in ker]
        r += 1
    return rank


def judge(case, obs, replies):
    out = []
    name = case["spec"]["name"]
    dm, thr = case["dm"], _thr(case["spec"])
    if "err" in obs:
        out.append({"kind": "property", "what": f"{name} refused an admissible input with {obs['err']}: {obs.get('msg')}"})
        return out

    def prop(what, expected=None, observed=None, identity=None):
        f = {"kind": "property", "what": what, "expected": expected, "observed": observed}
        if identity:
            f["identity"] = identity
        out.append(f)

    def corr(what, expected=None, observed=None):
        out.append({"kind": "correspondence", "what": what, "expected": expected, "observed": observed})

    A = [[C.F(x) for x in r] for r in dm["matrix"]]
    w = [C.F(x) for x in dm["weights"]]
    o = dm["objectives"]
    m, n = len(A), len(w)
    ge = lambda j, x, y: (x >= y) if o[j] == 1 else (x <= y)
    gt = lambda j, x, y: (x > y) if o[j] == 1 else (x < y)
    rng_ = max(max(A[i][j] for i in range(m)) - min(A[i][j] for i in range(m)) for j in range(n))
    conc = [[None if a == b else sum(w[j] for j in range(n) if ge(j, A[a][j], A[b][j])) for b in range(m)] for a in range(m)]
    disc = [[None if a == b else max([abs(A[b][j] - A[a][j]) for j in range(n) if gt(j, A[b][j], A[a][j])] + [Fraction(0)]) / rng_
             for b in range(m)] for a in range(m)]

    def numeric(what, impl, exactm):
        for a in range(m):
            for b in range(m):
                x, e = impl[a][b], exactm[a][b]
                if (x is None) != (e is None) or (x is not None and abs(C.F(x) - e) > Fraction(1, 10**9)):
                    prop(f"{name}: {what}({a},{b}) differs from the definition", str(e), x)
                    return False
        return True

    numeric("concordance", obs["conc"], conc)
    numeric("discordance", obs["disc"], disc)

    # discrete layers from the implementation's OWN numbers
    c, d = obs["conc"], obs["disc"]

    def cell(a, b, p, q):
        return a != b and c[a][b] is not None and c[a][b] >= p and d[a][b] <= q

    if name == "ELECTRE1":
        exp = [[cell(a, b, thr["p"], thr["q"]) for b in range(m)] for a in range(m)]
        if obs["outrank"] != exp:
            prop("ELECTRE1: outrank is not (concordance >= p) & (discordance <= q)", exp, obs["outrank"])
        ker = [not any(obs["outrank"][a][b] for a in range(m)) for b in range(m)]
        if obs["values"] != ker:
            prop("ELECTRE1: kernel is not the set of alternatives nothing outranks", ker, obs["values"])
    else:
        # weight-comparison relation by the definition (exact); skip pairs whose two sums are closer than 1e-12 in the float family
        wor_spec, hazard = [], False
        for a in range(m):
            row = []
            for b in range(m):
                if a == b:
                    row.append(False)
                    continue
                sab = sum(w[j] for j in range(n) if gt(j, A[a][j], A[b][j]))
                sba = sum(w[j] for j in range(n) if gt(j, A[b][j], A[a][j]))
                if dm["family"] != "dyadic" and sab != sba and abs(sab - sba) < Fraction(1, 10**12):
                    hazard = True
                row.append(sab >= sba)
            wor_spec.append(row)
        if obs["wor"] != wor_spec and not hazard:
            mcode = replies[0].get("wor_code")
            ident = K1 if mcode == obs["wor"] else None
            prop("ELECTRE2: the weight-comparison relation differs from its definition (weight where a is strictly better >= "
                 "weight where b is strictly better)", wor_spec, obs["wor"], ident)
        wor = obs["wor"]
        exs = [[(cell(a, b, thr["p0"], thr["q0"]) or cell(a, b, thr["p1"], thr["q1"])) and wor[a][b] for b in range(m)] for a in range(m)]
        exw = [[cell(a, b, thr["p2"], thr["q0"]) and wor[a][b] for b in range(m)] for a in range(m)]
        if obs["outrank_s"] != exs:
            prop("ELECTRE2: strong relation differs from the documented combination of thresholds", exs, obs["outrank_s"])
        if obs["outrank_w"] != exw:
            prop("ELECTRE2: weak relation differs from the documented combination of thresholds", exw, obs["outrank_w"])
        S, W = obs["outrank_s"], obs["outrank_w"]
        direct = _distill(S, W, m)
        inv0 = _distill([list(r) for r in zip(*S)], [list(r) for r in zip(*W)], m)
        inverted = [max(inv0) + 1 - x for x in inv0]
        if obs["direct"] != direct:
            prop("ELECTRE2: direct ranking is not the distillation of the strong / weak relations", direct, obs["direct"])
        if obs["inverted"] != inverted:
            prop("ELECTRE2: inverse ranking is not the reflected distillation of the transposed relations", inverted, obs["inverted"])
        score = [(a + b) / 2 for a, b in zip(obs["direct"], obs["inverted"])]
        if obs["score"] != score:
            prop("ELECTRE2: score is not the mean of the two rankings", score, obs["score"])
        ds = sorted(set(obs["score"]))
        fin = [ds.index(x) + 1 for x in obs["score"]]
        if obs["values"] != fin:
            prop("ELECTRE2: final ranking is not the dense ranking of the score", fin, obs["values"])

    # correspondence with the Lean model
    full, graphs = replies[0], replies[1]
    close = lambda a, b: (a is None and b is None) or (a is not None and b is not None and abs(float(C.frac(a)) - b) <= 1e-9)
    for key, impl in (("concordance", obs["conc"]), ("discordance", obs["disc"])):
        mm = full.get(key)
        if mm is None or any(not close(mm[a][b], impl[a][b]) for a in range(m) for b in range(m)):
            corr(f"{name}: {key}, model vs implementation", mm, impl)
    thrs = list(thr.values())
    vals = [x for row in obs["conc"] + obs["disc"] for x in row if x is not None]
    # the model's exact run and the implementation's doubles agree on which side of a threshold a value lies when either the value is
    # exact in binary64 (dyadic data whose largest criterion range is a power of two: every discordance is then a dyadic fraction) or
    # it is not within rounding of a threshold
    A_ = dm["matrix"]
    rng_max = max((max(r[j] for r in A_) - min(r[j] for r in A_)) for j in range(len(dm["objectives"])))
    exact_div = dm["family"] == "dyadic" and rng_max > 0 and math.frexp(rng_max)[0] == 0.5
    offb = exact_div or all(abs(v - t) > 1e-9 for v in vals for t in thrs)
    if name == "ELECTRE1":
        if graphs.get("outrank") != obs["outrank"] or graphs.get("kernel") != obs["values"]:
            corr("ELECTRE1: outrank/kernel recomputed by the model from the implementation's concordance/discordance", graphs, [obs["outrank"], obs["values"]])
        if offb and (full.get("outrank") != obs["outrank"] or full.get("kernel") != obs["values"]):
            corr("ELECTRE1: outrank/kernel, full model run vs implementation", [full.get("outrank"), full.get("kernel")], [obs["outrank"], obs["values"]])
    else:
        post = replies[2]
        if graphs.get("outrank_s") != obs["outrank_s"] or graphs.get("outrank_w") != obs["outrank_w"]:
            corr("ELECTRE2: strong/weak graphs recomputed by the model from the implementation's numbers", graphs, [obs["outrank_s"], obs["outrank_w"]])
        if post.get("ranking_direct") != obs["direct"] or post.get("ranking_inverted") != obs["inverted"] or post.get("rank") != obs["values"] \
                or [x / 2 for x in post.get("score2", [])] != obs["score"]:
            corr("ELECTRE2: distillation recomputed by the model from the implementation's graphs", post, [obs["direct"], obs["inverted"], obs["values"]])
        if full.get("wor_code") != obs["wor"] and dm["family"] == "dyadic":
            corr("ELECTRE2: matrix_wor, model of the call as coded vs implementation", full.get("wor_code"), obs["wor"])
        if offb and dm["family"] == "dyadic" and (full.get("outrank_s") != obs["outrank_s"] or full.get("outrank_w") != obs["outrank_w"]
                                                     or full.get("rank") != obs["values"]):
            corr("ELECTRE2: graphs/rank, full model run vs implementation", [full.get("outrank_s"), full.get("outrank_w"), full.get("rank")],
                 [obs["outrank_s"], obs["outrank_w"], obs["values"]])
    return out


def nontrivial(case, obs):
    return len(case["dm"]["matrix"]) >= 3 and "err" not in obs


def tags(case, obs):
    t = ["method:" + case["spec"]["name"], "family:" + case["dm"]["family"]]
    if "err" not in obs:
        thr = list(_thr(case["spec"]).values())
        vals = [x for row in obs["conc"] + obs["disc"] for x in row if x is not None]
        if any(v == x for v in vals for x in thr):
            t.append("pair-exactly-on-threshold")
        t.append("default-thresholds" if len(case["spec"]) == 1 else "custom-thresholds")
    return t
