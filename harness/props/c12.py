"""C12 — preprocessing never reverses a preference between two alternatives."""
from __future__ import annotations

import itertools
import math

import numpy as np

import common as C
import gen as G
import methods as M
from props import c11

PID = "C12"
RULE = (
    "cases: a decision matrix with mixed objectives (2..8 alternatives x 1..5 criteria, heavy ties, duplicated rows, forced dominating "
    "pairs, constant criteria; dyadic eighths or arbitrary doubles, the latter with near-ties between neighbouring doubles; in the dyadic "
    "family the criteria are all float64 (1/2), ALL int64 (whole numbers 1..40 on positive data, -16..40 otherwise, the decision matrix "
    "built from an integer numpy array, 1/3) or mixed int64 / float64 through mkdm(dtypes=) (1/6)) inside the sign domain of the pipeline applied to it, and one or more "
    "pipelines: (a) every listed transformer x target matrix/weights/both x parameter setting alone (SumScaler, VectorScaler, MaxAbsScaler, "
    "InvertMinimize on positive data; MinMaxScaler x 8 ranges x clip, StandarScaler x with_mean x with_std, PushNegatives, AddValueToZero "
    "x 7 values, NegateMinimize on any data), (b) random SEQUENCES of 1..5 of them, each step drawn among those whose domain holds at that "
    "point (sign state of matrix and weights tracked through the steps). Thorough adds (c) the exhaustive set: every matrix of shape "
    "<= 3 x 2 over {-1,0,1,2} ({1,2} for the positive-data transformers) x every objective vector x every transformer, and again "
    "with ALL criteria int64 (and, two criteria, int64 next to float64): {1,2,3} for the positive-data transformers up to 3 x 2, "
    "{-1,0,1,2} up to 4 cells. "
    "Oracle: per criterion and pair of alternatives the sign of the objective-oriented difference before vs after, and "
    "dm.dominance.dominance(strict=False/True) before vs after. Correspondence: Lean model of the pipeline (op tr) followed by the dom op "
    "vs the implementation's dominance tables after. Non-trivial: >= 2 alternatives; distinct by case hash."
)
ASSUMPTIONS = [
    "dyadic family (eighths) and the exhaustive alphabet: signs must agree exactly; arbitrary doubles: a strict preference that becomes an "
    "equality is counted as 'merged by rounding' (pairs touched by a merge are left out of the dominance comparison), a reversal or a new "
    "strict preference out of an equality is a violation in every family",
    "sign domains are tracked abstractly (positive / non-negative / any) through a sequence; a step is only drawn when its domain holds",
    "dyadic criteria are either exactly constant or clearly non-constant (DESIGN section 14); the float family also holds near-ties "
    "(neighbouring doubles) on purpose: there scikit-learn's near-constant thresholds may replace a scale by 1, which changes the scale "
    "only, never the order, and only dominance tables (not cells) are compared with the model",
]
PARTIAL = ("rounding can merge two distinct values into one (strict becomes equal); reported separately as 'merged by rounding', never as "
           "reversal. The model is exact (Rat) except for VectorScaler / StandarScaler pipelines, which run at Lean Float")
EXHAUSTIVE = True
TRUSTED = c11.TRUSTED

POS_ONLY = ("SumScaler", "VectorScaler", "MaxAbsScaler")
FLOAT_ONLY = c11.FLOAT_ONLY
TARGETS = c11.TARGETS


def configs():
    out = [c for c in c11.configs() if c[0] != "CenitDistanceMatrixScaler"]
    out += [("NegateMinimize", "matrix", {})] * 3 + [("InvertMinimize", "matrix", {})] * 3
    return out


# ----------------------------------------------------------------------------- sign states


def state_of(values):
    if all(v > 0 for v in values):
        return "pos"
    if all(v >= 0 for v in values):
        return "nonneg"
    return "any"


def _after(name, params, st):
    """sign state of a part after the transformer has been applied to it"""
    if name in POS_ONLY:
        return "pos"
    if name == "MinMaxScaler":
        return "pos" if params["lo"] > 0 else ("nonneg" if params["lo"] == 0 else "any")
    if name == "StandarScaler":
        return "any" if params["with_mean"] else st
    if name == "PushNegatives":
        return st if st in ("pos", "nonneg") else "nonneg"
    if name == "AddValueToZero":
        if st == "pos":
            return "pos"
        if st == "nonneg" and params["value"] > 0:
            return "pos"
        return "any"
    raise ValueError(name)


def allowed_targets(name, mst, wst):
    if name in ("NegateMinimize",):
        return ["matrix"]
    if name == "InvertMinimize":
        return ["matrix"] if mst == "pos" else []
    if name in POS_ONLY:
        t = []
        if mst == "pos":
            t.append("matrix")
        if wst == "pos":
            t.append("weights")
        if mst == "pos" and wst == "pos":
            t.append("both")
        return t
    return list(TARGETS)


def advance(step, mst, wst, objs):
    name, target, params = step["name"], step["target"], step["params"]
    if name == "NegateMinimize":
        return ("any" if any(o == -1 for o in objs) else mst), wst, [1] * len(objs)
    if name == "InvertMinimize":
        return "pos", wst, [1] * len(objs)
    if target in ("matrix", "both"):
        mst = _after(name, params, mst)
    if target in ("weights", "both"):
        wst = _after(name, params, wst)
    return mst, wst, objs


def concrete(rng, cfg):
    """fill the random parameters of a configuration"""
    name, target, params = cfg
    params = dict(params)
    if name == "MinMaxScaler":
        r = params.pop("range")
        if r is None:
            lo = rng.randint(-40, 40) / 8
            r = (lo, lo + rng.randint(1, 64) / 8)
        params["lo"], params["hi"] = r
    if name == "AddValueToZero" and params["value"] is None:
        params["value"] = math.ldexp(rng.uniform(0.5, 1.0), rng.randint(-8, 4))
    return {"name": name, "target": target, "params": params}


# ----------------------------------------------------------------------------- generators


def matrix(rng, m, n, family, positive, objs):
    A = G.matrix(rng, m, n, family, positive=positive, ties=rng.choice([0.2, 0.5]), dups=0.15, dominated=0.3, objs=objs)
    if not positive and family == "float":
        for _ in range(rng.randint(0, 2)):
            A[rng.randrange(m)][rng.randrange(n)] = 0.0
    if family == "float" and m >= 2 and rng.random() < 0.4:  # near-ties: neighbouring doubles, which rounding may merge
        for _ in range(rng.randint(1, 3)):
            i, k = rng.sample(range(m), 2)
            j = rng.randrange(n)
            A[i][j] = math.nextafter(A[k][j], math.inf if rng.random() < 0.5 else -math.inf)
            if positive and A[i][j] <= 0:
                A[i][j] = A[k][j]
    if family == "dyadic" and rng.random() < 0.15:  # an exactly constant criterion
        j = rng.randrange(n)
        for i in range(m):
            A[i][j] = A[0][j]
    return A


def draw_dtypes(rng, n):
    """dtype of each criterion: all float64 / ALL int64 (decision matrix built from an integer numpy array) / mixed int64-float64"""
    mode = rng.choice(["float", "float", "float", "int", "int", "mixed"])
    if mode == "int":
        return ["int"] * n
    if mode == "mixed" and n >= 2:
        dt = [rng.choice(["int", "float"]) for _ in range(n)]
        i, k = rng.sample(range(n), 2)
        dt[i], dt[k] = "int", "float"
        return dt
    return ["float"] * n


def whole(A, dtypes, positive):
    """the cells of the integer-typed criteria become whole numbers: eighths x 8 (an order-preserving map of the column, so ties,
    duplicated rows and forced dominating pairs stay what they were); anything else is rounded up, positive data stays >= 1"""
    for row in A:
        for j, t in enumerate(dtypes):
            if t == "int":
                v = float(math.ceil(row[j] * 8))
                row[j] = max(v, 1.0) if positive else v
    return A


def base_dm(rng, positive, wpositive=True):
    m, n = rng.randint(2, 8), rng.randint(1, 5)
    family = rng.choice(["dyadic", "dyadic", "float"])
    objs = G.objectives(rng, n, rng.choice(["mixed", "mixed", "mixed", "min", "max"]))
    if wpositive or n < 2:
        w = G.weights(rng, n, family)
    else:
        w = c11.vec(rng, n, family, rng.choice(["mixed", "zero", "minzero"]))
    A = matrix(rng, m, n, family, positive, objs)
    # integer-typed criteria live in the exactly representable family only (whole numbers are exact)
    dtypes = draw_dtypes(rng, n) if family == "dyadic" else ["float"] * n
    return {"matrix": whole(A, dtypes, positive), "objectives": objs, "weights": w,
            "alternatives": G.labels(rng, G.LABEL_POOL_ALT, m), "criteria": G.labels(rng, G.LABEL_POOL_CRIT, n), "family": family,
            "dtypes": dtypes}


def single_case(rng, cfg):
    step = concrete(rng, cfg)
    needs_pos = step["name"] in POS_ONLY or step["name"] == "InvertMinimize"
    dm = base_dm(rng, positive=needs_pos or rng.random() < 0.3, wpositive=needs_pos or rng.random() < 0.6)
    return {"kind": "single", "dm": dm, "pipelines": [[step]]}


def sequence_case(rng, by_name):
    names = sorted(by_name)
    dm = base_dm(rng, positive=rng.random() < 0.5, wpositive=rng.random() < 0.7)
    mst = state_of([v for r in dm["matrix"] for v in r])
    wst = state_of(dm["weights"])
    objs = list(dm["objectives"])
    steps = []
    for _ in range(rng.randint(1, 5)):
        for _try in range(50):
            name, target, params = cfg = rng.choice(by_name[rng.choice(names)])
            ok = allowed_targets(name, mst, wst)
            if target in ok:
                break
        else:
            break
        st = concrete(rng, cfg)
        steps.append(st)
        mst, wst, objs = advance(st, mst, wst, objs)
    return {"kind": "seq", "dm": dm, "pipelines": [steps]}


EXH_ANY = [
    {"name": "MinMaxScaler", "target": "matrix", "params": {"lo": 0.0, "hi": 1.0, "clip": False}},
    {"name": "MinMaxScaler", "target": "both", "params": {"lo": -1.0, "hi": 2.0, "clip": True}},
    {"name": "StandarScaler", "target": "matrix", "params": {"with_mean": True, "with_std": True}},
    {"name": "StandarScaler", "target": "matrix", "params": {"with_mean": False, "with_std": True}},
    {"name": "PushNegatives", "target": "matrix", "params": {}},
    {"name": "AddValueToZero", "target": "matrix", "params": {"value": 1.0}},
    {"name": "AddValueToZero", "target": "both", "params": {"value": -0.5}},
    {"name": "NegateMinimize", "target": "matrix", "params": {}},
]
EXH_POS = [
    {"name": "SumScaler", "target": "both", "params": {}},
    {"name": "VectorScaler", "target": "matrix", "params": {}},
    {"name": "MaxAbsScaler", "target": "matrix", "params": {}},
    {"name": "InvertMinimize", "target": "matrix", "params": {}},
]


def exhaustive_cases():
    out = []
    for m in (1, 2, 3):
        for n in (1, 2):
            for alphabet, pipes in (((-1.0, 0.0, 1.0, 2.0), EXH_ANY), ((1.0, 2.0), EXH_POS)):
                for cells in itertools.product(alphabet, repeat=m * n):
                    mat = [list(cells[i * n:(i + 1) * n]) for i in range(m)]
                    for objs in itertools.product((1, -1), repeat=n):
                        dm = {"matrix": mat, "objectives": list(objs), "weights": [1.0, 2.0][:n],
                              "alternatives": [f"A{i}" for i in range(m)], "criteria": [f"C{j}" for j in range(n)], "family": "dyadic"}
                        out.append({"kind": "exh", "dm": dm, "pipelines": [[p] for p in pipes]})
    # the same with integer-typed criteria: ALL int64, and (two criteria) int64 next to float64.  The positive alphabet gets a third
    # value so that a criterion can hold two different values >= 2; the 4-letter alphabet is kept to shapes of <= 4 cells
    for m in (1, 2, 3):
        for n in (1, 2):
            for alphabet, pipes in (((-1.0, 0.0, 1.0, 2.0), EXH_ANY), ((1.0, 2.0, 3.0), EXH_POS)):
                if len(alphabet) == 4 and m * n > 4:
                    continue
                for dtypes in (["int"] * n, ["int", "float"], ["float", "int"]):
                    if len(dtypes) != n or ("float" in dtypes and m > 2):
                        continue
                    for cells in itertools.product(alphabet, repeat=m * n):
                        mat = [list(cells[i * n:(i + 1) * n]) for i in range(m)]
                        for objs in itertools.product((1, -1), repeat=n):
                            dm = {"matrix": mat, "objectives": list(objs), "weights": [1.0, 2.0][:n], "alternatives": [f"A{i}" for i in range(m)],
                                  "criteria": [f"C{j}" for j in range(n)], "family": "dyadic", "dtypes": dtypes}
                            out.append({"kind": "exh", "dm": dm, "pipelines": [[p] for p in pipes]})
    return out


def gen(ctx):
    rng = ctx.rng
    cfgs = configs()
    by_name = {}
    for c in cfgs:
        by_name.setdefault(c[0], []).append(c)
    names = sorted(by_name)
    for nm in names:
        rng.shuffle(by_name[nm])
    cases = []
    for i in range(ctx.n(180, 3000)):
        lst = by_name[names[i % len(names)]]
        cases.append(single_case(rng, lst[(i // len(names)) % len(lst)]))
    for _ in range(ctx.n(180, 3000)):
        cases.append(sequence_case(rng, by_name))
    if ctx.thorough:
        cases += exhaustive_cases()
    return cases


# ----------------------------------------------------------------------------- the implementation


def build(step):
    from skcriteria.preprocessing import invert_objectives

    if step["name"] == "NegateMinimize":
        return invert_objectives.NegateMinimize()
    if step["name"] == "InvertMinimize":
        return invert_objectives.InvertMinimize()
    return c11.build(step["name"], step["target"], step["params"])


def _tables(dm):
    return [dm.dominance.dominance(strict=s).to_numpy().astype(bool).tolist() for s in (False, True)]


def observe(case):
    with M.quiet():
        dm = c11.mkdm(case["dm"])
        out = {"before": _tables(dm), "runs": []}
        for pipe in case["pipelines"]:
            try:
                cur = dm
                for step in pipe:
                    cur = build(step).transform(cur)
                mat = np.asarray(cur.matrix.to_numpy(), dtype=float)
                run = {"matrix": mat.tolist(), "objectives": [int(x) for x in cur.iobjectives.to_numpy()],
                       "finite": bool(np.all(np.isfinite(mat))), "after": _tables(cur)}
            except Exception as e:
                run = {"err": G.err_name(e), "msg": str(e)[:200]}
            out["runs"].append(run)
        return out


def pipe_domain(pipe):
    return "float" if any(s["name"] in FLOAT_ONLY for s in pipe) else "rat"


def requests(case, obs):
    dm = case["dm"]
    reqs = []
    for pipe in case["pipelines"]:
        domain = pipe_domain(pipe)
        enc = C.fbits if domain == "float" else C.rat
        reqs.append({"op": "tr", "domain": domain, "M": [[enc(x) for x in row] for row in dm["matrix"]],
                     "O": ["max" if o == 1 else "min" for o in dm["objectives"]], "w": [enc(x) for x in dm["weights"]],
                     "steps": [c11.tr_step(s["name"], s["target"], s["params"], enc) for s in pipe],
                     "dom": [{"m": "dominance", "strict": False}, {"m": "dominance", "strict": True}]})
    return reqs


# ----------------------------------------------------------------------------- the property


def sign(x):
    return (x > 0) - (x < 0)


def compare_signs(A, o, Y, o2):
    """per criterion and pair: oriented sign before vs after.
    returns (reversals, born, merged) as lists of (j, a, b)"""
    m, n = len(A), len(o)
    rev, born, merged = [], [], []
    for j in range(n):
        for a in range(m):
            for b in range(a + 1, m):
                s0 = sign(A[a][j] - A[b][j]) * o[j]
                s1 = sign(Y[a][j] - Y[b][j]) * o2[j]
                if s0 == s1:
                    continue
                if s0 == 0:
                    born.append((j, a, b))
                elif s1 == 0:
                    merged.append((j, a, b))
                else:
                    rev.append((j, a, b))
    return rev, born, merged


def describe(pipe):
    return " -> ".join(f"{s['name']}({s['target']}{', ' + str(s['params']) if s['params'] else ''})" for s in pipe)


def judge(case, obs, replies):
    out = []
    dm = case["dm"]
    A, o = dm["matrix"], dm["objectives"]
    m = len(A)
    exact_family = dm["family"] == "dyadic"

    def prop(what, expected=None, observed=None):
        out.append({"kind": "property", "what": what, "expected": expected, "observed": observed})

    def corr(what, expected=None, observed=None):
        out.append({"kind": "correspondence", "what": what, "expected": expected, "observed": observed})

    for pipe, run, rep in zip(case["pipelines"], obs["runs"], replies):
        label = describe(pipe)
        if "err" in run:
            prop(f"{label}: raised {run['err']} inside its domain: {run.get('msg')}", "a transformed matrix", run["err"])
            continue
        if not run["finite"]:
            prop(f"{label}: non-finite values in the output inside its domain", "finite", run["matrix"])
            continue
        Y, o2 = run["matrix"], run["objectives"]
        rev, born, merged = compare_signs(A, o, Y, o2)
        if rev:
            j, a, b = rev[0]
            prop(f"{label}: preference between two alternatives REVERSED on a criterion",
                 {"criterion": j, "pair": [a, b], "before": [A[a][j], A[b][j]], "objective_before": o[j]},
                 {"after": [Y[a][j], Y[b][j]], "objective_after": o2[j]})
        if born:
            j, a, b = born[0]
            prop(f"{label}: two alternatives equal on a criterion became strictly ordered",
                 {"criterion": j, "pair": [a, b], "before": [A[a][j], A[b][j]]}, {"after": [Y[a][j], Y[b][j]]})
        if merged and exact_family:
            j, a, b = merged[0]
            prop(f"{label}: a strict preference became an equality on exactly representable data",
                 {"criterion": j, "pair": [a, b], "before": [A[a][j], A[b][j]]}, {"after": [Y[a][j], Y[b][j]]})
        skip = {(a, b) for _, a, b in merged} | {(b, a) for _, a, b in merged}
        for k, strict in enumerate((False, True)):
            before, after = obs["before"][k], run["after"][k]
            diff = [(a, b) for a in range(m) for b in range(m) if before[a][b] != after[a][b] and (a, b) not in skip]
            if diff:
                a, b = diff[0]
                prop(f"{label}: dominance(strict={strict}) differs before and after",
                     {"pair": [a, b], "before": before[a][b], "rows_before": [A[a], A[b]], "objectives_before": o},
                     {"after": after[a][b], "rows_after": [Y[a], Y[b]], "objectives_after": o2})
                break
        # correspondence: model of the pipeline, then the model of the dominance accessor
        if "err" in rep:
            corr(f"{label}: model refuses, implementation accepts", rep["err"], "accepted")
            continue
        mM = [[(float(C.frac(x)) if "/" in x else C.unfbits(x)) if x is not None else float("nan") for x in r] for r in rep["M"]]
        mo = [1 if x == "max" else -1 for x in rep["O"]]
        if mo != o2:
            corr(f"{label}: objectives after, model vs implementation", mo, o2)
            continue
        _, _, mmerged = compare_signs(A, o, mM, mo)
        mskip = skip | {(a, b) for _, a, b in mmerged} | {(b, a) for _, a, b in mmerged}
        for k, strict in enumerate((False, True)):
            mt, it = rep["dom"][k], run["after"][k]
            diff = [(a, b) for a in range(m) for b in range(m) if mt[a][b] != it[a][b] and (a, b) not in mskip]
            if diff:
                corr(f"{label}: dominance(strict={strict}) after, model vs implementation", {"pair": diff[0], "model": mt}, it)
                break
    return out


def nontrivial(case, obs):
    return len(case["dm"]["matrix"]) >= 2


def tags(case, obs):
    dm = case["dm"]
    t = ["kind:" + case["kind"], "family:" + dm["family"]]
    dt = dm.get("dtypes") or ["float"]
    t.append("dtypes:" + ("int" if all(x == "int" for x in dt) else "float" if all(x == "float" for x in dt) else "mixed"))
    o = dm["objectives"]
    t.append("objs:" + ("max" if all(x == 1 for x in o) else "min" if all(x == -1 for x in o) else "mixed"))
    if case["kind"] != "exh":
        t.append("len=%d" % len(case["pipelines"][0]))
        for s in case["pipelines"][0]:
            t.append("step:" + s["name"])
            t.append("target:" + s["target"])
        for run in obs.get("runs", []):
            if "matrix" in run and run.get("finite"):
                rev, born, merged = compare_signs(dm["matrix"], o, run["matrix"], run["objectives"])
                if merged:
                    t.append("merged-by-rounding")
        if any(any(r) for r in obs["before"][0]):
            t.append("has-dominance")
        if any(any(r) for r in obs["before"][1]):
            t.append("has-strict-dominance")
    return t
