"""C12 — preprocessing never reverses a preference between two alternatives."""
from __future__ import annotations

import itertools
import math
from decimal import Decimal
from fractions import Fraction

import numpy as np

import common as C
import gen as G
import methods as M
from props import c11

PID = "C12"
RULE = (
    "cases: a decision matrix with mixed objectives (2..8 alternatives x 1..5 criteria, heavy ties, duplicated rows, forced dominating "
    "pairs, constant criteria; dyadic eighths or arbitrary doubles, the latter with near-ties between neighbouring doubles; in the dyadic "
    "family the criteria are all float64 (1/2), ALL int64 (whole numbers 1..40 on positive data, -16..40 otherwise, the decision matrix "
    "built from an integer numpy array, 1/3) or mixed int64 / float64 through mkdm(dtypes=) (1/6)) inside the sign domain of the pipeline applied to it, and one or more "
    "pipelines: (a) every listed transformer x target matrix/weights/both x parameter setting alone (SumScaler, VectorScaler, MaxAbsScaler, "
    "InvertMinimize on positive data; MinMaxScaler x 8 ranges x clip, StandarScaler x with_mean x with_std, PushNegatives, AddValueToZero "
    "x 7 values, NegateMinimize on any data), (b) random SEQUENCES of 1..5 of them, each step drawn among those whose domain holds at that "
    "point (sign state of matrix and weights tracked through the steps); one sequence in three is CHAINED: the data starts outside the "
    "positive domain, a prefix establishes it (MinMaxScaler onto a positive range / PushNegatives then AddValueToZero(value > 0)) and the "
    "positive-data transformers are favoured afterwards. HOW the steps are run is drawn per case: by hand, one fresh transformer after "
    "the other (2/5); mkpipe(...).transform (1/10); the public constructor SKCPipeline(steps=[(name, step), ..., (name, decision "
    "maker)]).transform with user-given names, all different (3/20) or REPEATED (7/20: at least two transformer steps share a name, "
    "at times the decision maker too) - the output of a pipeline object is also compared (equality) with its steps applied by hand. "
    "One case in two carries a SECOND decision matrix that goes through the SAME transformer objects / pipeline object after the first: "
    "identical criteria labels and dtypes, objectives flipped on a random non-empty subset of the criteria, the same cells (1/3, "
    "dm.copy(objectives=...)) or other cells, weights and alternatives (2/3), inside the sign domain of the pipeline as well; each "
    "output is judged against its own input. (d) TINY SCALED VALUES (arbitrary doubles, 120 quick): MinMaxScaler / StandarScaler / "
    "MaxAbsScaler (scikit-learn backed) and SumScaler / VectorScaler, every configuration and target cycled, on a matrix whose criteria "
    "(target matrix / both) and / or weight vector (target weights / both) hold 2..3 cells whose SCALED values are pairwise distinct - "
    "3e-9 .. 2e-8 of the output scale apart - and all within a few 1e-8 of 0 (tiny positive values under MaxAbs / Sum / Vector; next to "
    "the mean, or next to 0 without centring, under StandarScaler; next to the pre-image of 0 under a MinMaxScaler range that holds 0) "
    "or of the lower end of the range; one member at times exactly on the point (the minimum itself); the scaler alone (2/3) or followed "
    "by 1..2 further steps (1/3). (e) HISTORIES on one decision matrix object (120 quick, a loop of its own): after the dominance tables of "
    "dm were read, dm.copy(objectives=<flipped on a random non-empty subset of the criteria>) (1/3), dm.copy(matrix=<other values: the "
    "rows of dm permuted or fresh cells of the same shape, dtypes and sign domain, at least one pair ordered differently on some "
    "criterion>) (1/3) or both (1/3) is called and the copy thrown away; THEN the pipeline is applied to dm itself and judged against "
    "dm's own objectives and values: a single objective inverter / every transformer in turn (1/2), or a sequence as in (b) (1/2, with an "
    "objective inverter appended when the replaced part is the objectives and the sequence holds none); built by hand / mkpipe / "
    "SKCPipeline as everywhere; where a second decision matrix goes through the same objects it has its own what-if copy one time in "
    "two. (f) VALUES THAT DIFFER ONLY BEYOND 7 SIGNIFICANT DIGITS (arbitrary doubles, 220 quick, a loop of its own): 2..3 alternatives "
    "hold v, v(1+d), v(1+2d) on a criterion, d = 1e-12 .. 1e-8 (exact distinct doubles, not near-ties; v the largest magnitude of the "
    "criterion one time in two), every transformer x target matrix / both and the inverters in turn, alone (1/2), followed by 1..2 "
    "steps (1/4) or a sequence as in (b) (1/4). (g) VERY LONG matrices (8 quick, a loop of its own): 4097..9000 alternatives x 2..3 "
    "criteria, whole numbers or eighths (float64 / all int64), the most negative value of every criterion only in a block of 1..4096 "
    "rows at the start or at the end, far-apart dominated copies; PushNegatives, AddValueToZero and sequences of them with MinMaxScaler "
    "/ MaxAbsScaler / NegateMinimize, most ending in InvertMinimize; the order of ALL pairs is judged per criterion (through the sorted "
    "order), dominance tables are read on ~15 probed alternatives (dm.loc) before and after, and the model transforms the sub-matrix "
    "of the probed rows and of the rows holding the minimum, the maximum and the zeros of every criterion at every step (cells within "
    "1e-9 x scale, dominance tables equal). Thorough adds (c) the exhaustive set: every matrix of shape "
    "<= 3 x 2 over {-1,0,1,2} ({1,2} for the positive-data transformers) x every objective vector x every transformer, and again "
    "with ALL criteria int64 (and, two criteria, int64 next to float64): {1,2,3} for the positive-data transformers up to 3 x 2, "
    "{-1,0,1,2} up to 4 cells. "
    "Oracle: per criterion and pair of alternatives the sign of the objective-oriented difference before vs after, and "
    "dm.dominance.dominance(strict=False/True) before vs after. Correspondence: Lean model of the pipeline (op tr) followed by the dom op "
    "vs the implementation's dominance tables after. Non-trivial: >= 2 alternatives; distinct by case hash."
)
ASSUMPTIONS = [
    "dyadic family (eighths) and the exhaustive alphabet: signs must agree exactly; arbitrary doubles: a strict preference that becomes an "
    "equality is excused as 'merged by rounding' (pairs touched by a merge are left out of the dominance comparison) ONLY when the EXACT "
    "transformed values of the two alternatives (every step of the pipeline evaluated in Fraction arithmetic, square roots to 60 digits, "
    "from the documented formulas) are within the rounding margins of the two outputs, 2 x 1e-9 x scale with scale = max(1, largest exact "
    "magnitude of the transformed criterion), or when the two INPUT cells are near-ties (apart by < 2^-40 of their own magnitude, or "
    "<= 4 doubles: the neighbouring doubles the generator plants; a criterion made of those alone has a range of a few ulps and what "
    "becomes of it is conditioning, e.g. [0.0, 5e-324]); otherwise the equality is a violation (a tie was manufactured). A reversal or a "
    "new strict preference out of an equality is a violation in every family",
    "sign domains are tracked abstractly (positive / non-negative / any) through a sequence; a step is only drawn when its domain holds",
    "dyadic criteria are either exactly constant or clearly non-constant (DESIGN section 14); the float family also holds near-ties "
    "(neighbouring doubles) on purpose: there scikit-learn's near-constant thresholds may replace a scale by 1, which changes the scale "
    "only, never the order, and only dominance tables (not cells) are compared with the model",
]
PARTIAL = ("rounding can merge two distinct values into one (strict becomes equal); reported separately as 'merged by rounding', never as "
           "reversal, and only for values whose exact images are within the rounding margin (or near-tie inputs). The order of the WEIGHTS "
           "is not part of the property: weights targets are exercised (domain, finiteness, model) but a tie among weights is not judged. The model is exact (Rat) except for VectorScaler / StandarScaler pipelines, which run at Lean Float")
EXHAUSTIVE = True
TRUSTED = c11.TRUSTED

POS_ONLY = ("SumScaler", "VectorScaler", "MaxAbsScaler")
FLOAT_ONLY = c11.FLOAT_ONLY
TARGETS = c11.TARGETS


def configs():
    out = [c for c in c11.configs() if c[0] != "CenitDistanceMatrixScaler"]
    out += [("NegateMinimize", "matrix", {})] * 3 + [("InvertMinimize", "matrix", {})] * 3
    return out


# ----------------------------------------------------------------------------- sign states


def state_of(values):
    if all(v > 0 for v in values):
        return "pos"
    if all(v >= 0 for v in values):
        return "nonneg"
    return "any"


def _after(name, params, st):
    """sign state of a part after the transformer has been applied to it"""
    if name in POS_ONLY:
        return "pos"
    if name == "MinMaxScaler":
        return "pos" if params["lo"] > 0 else ("nonneg" if params["lo"] == 0 else "any")
    if name == "StandarScaler":
        return "any" if params["with_mean"] else st
    if name == "PushNegatives":
        return st if st in ("pos", "nonneg") else "nonneg"
    if name == "AddValueToZero":
        if st == "pos":
            return "pos"
        if st == "nonneg" and params["value"] > 0:
            return "pos"
        return "any"
    raise ValueError(name)


def allowed_targets(name, mst, wst):
    if name in ("NegateMinimize",):
        return ["matrix"]
    if name == "InvertMinimize":
        return ["matrix"] if mst == "pos" else []
    if name in POS_ONLY:
        t = []
        if mst == "pos":
            t.append("matrix")
        if wst == "pos":
            t.append("weights")
        if mst == "pos" and wst == "pos":
            t.append("both")
        return t
    return list(TARGETS)


def advance(step, mst, wst, objs):
    name, target, params = step["name"], step["target"], step["params"]
    if name == "NegateMinimize":
        return ("any" if any(o == -1 for o in objs) else mst), wst, [1] * len(objs)
    if name == "InvertMinimize":
        return "pos", wst, [1] * len(objs)
    if target in ("matrix", "both"):
        mst = _after(name, params, mst)
    if target in ("weights", "both"):
        wst = _after(name, params, wst)
    return mst, wst, objs


def concrete(rng, cfg):
    """fill the random parameters of a configuration"""
    name, target, params = cfg
    params = dict(params)
    if name == "MinMaxScaler":
        r = params.pop("range")
        if r is None:
            lo = rng.randint(-40, 40) / 8
            r = (lo, lo + rng.randint(1, 64) / 8)
        params["lo"], params["hi"] = r
    if name == "AddValueToZero" and params["value"] is None:
        params["value"] = math.ldexp(rng.uniform(0.5, 1.0), rng.randint(-8, 4))
    return {"name": name, "target": target, "params": params}


# ----------------------------------------------------------------------------- generators


def matrix(rng, m, n, family, positive, objs):
    A = G.matrix(rng, m, n, family, positive=positive, ties=rng.choice([0.2, 0.5]), dups=0.15, dominated=0.3, objs=objs)
    if not positive and family == "float":
        for _ in range(rng.randint(0, 2)):
            A[rng.randrange(m)][rng.randrange(n)] = 0.0
    if family == "float" and m >= 2 and rng.random() < 0.4:  # near-ties: neighbouring doubles, which rounding may merge
        for _ in range(rng.randint(1, 3)):
            i, k = rng.sample(range(m), 2)
            j = rng.randrange(n)
            A[i][j] = math.nextafter(A[k][j], math.inf if rng.random() < 0.5 else -math.inf)
            if positive and A[i][j] <= 0:
                A[i][j] = A[k][j]
    if family == "dyadic" and rng.random() < 0.15:  # an exactly constant criterion
        j = rng.randrange(n)
        for i in range(m):
            A[i][j] = A[0][j]
    return A


def draw_dtypes(rng, n):
    """dtype of each criterion: all float64 / ALL int64 (decision matrix built from an integer numpy array) / mixed int64-float64"""
    mode = rng.choice(["float", "float", "float", "int", "int", "mixed"])
    if mode == "int":
        return ["int"] * n
    if mode == "mixed" and n >= 2:
        dt = [rng.choice(["int", "float"]) for _ in range(n)]
        i, k = rng.sample(range(n), 2)
        dt[i], dt[k] = "int", "float"
        return dt
    return ["float"] * n


def whole(A, dtypes, positive):
    """the cells of the integer-typed criteria become whole numbers: eighths x 8 (an order-preserving map of the column, so ties,
    duplicated rows and forced dominating pairs stay what they were); anything else is rounded up, positive data stays >= 1"""
    for row in A:
        for j, t in enumerate(dtypes):
            if t == "int":
                v = float(math.ceil(row[j] * 8))
                row[j] = max(v, 1.0) if positive else v
    return A


def base_dm(rng, positive, wpositive=True):
    m, n = rng.randint(2, 8), rng.randint(1, 5)
    family = rng.choice(["dyadic", "dyadic", "float"])
    objs = G.objectives(rng, n, rng.choice(["mixed", "mixed", "mixed", "min", "max"]))
    if wpositive or n < 2:
        w = G.weights(rng, n, family)
    else:
        w = c11.vec(rng, n, family, rng.choice(["mixed", "zero", "minzero"]))
    A = matrix(rng, m, n, family, positive, objs)
    # integer-typed criteria live in the exactly representable family only (whole numbers are exact)
    dtypes = draw_dtypes(rng, n) if family == "dyadic" else ["float"] * n
    return {"matrix": whole(A, dtypes, positive), "objectives": objs, "weights": w,
            "alternatives": G.labels(rng, G.LABEL_POOL_ALT, m), "criteria": G.labels(rng, G.LABEL_POOL_CRIT, n), "family": family,
            "dtypes": dtypes}


def domain_ok(pipe, dm):
    """every step of the pipeline is inside its sign domain on this decision matrix (abstract sign states, as in sequence_case)"""
    mst = state_of([v for r in dm["matrix"] for v in r])
    wst = state_of(dm["weights"])
    objs = list(dm["objectives"])
    for st in pipe:
        if st["target"] not in allowed_targets(st["name"], mst, wst):
            return False
        mst, wst, objs = advance(st, mst, wst, objs)
    return True


def second_dm(rng, dm, pipe, positive, wpositive):
    """a SECOND decision matrix for the same transformer objects: identical criteria labels (and dtypes), an objective vector that
    differs from the first one on at least one criterion, and 1/3 the same cells (dm.copy(objectives=...)) / 2/3 other cells, weights
    and alternatives; inside the sign domain of the pipeline as well.  None if no such matrix was drawn."""
    n = len(dm["objectives"])
    for _ in range(40):
        flip = set(rng.sample(range(n), rng.randint(1, n)))
        objs = [-o if j in flip else o for j, o in enumerate(dm["objectives"])]
        if rng.random() < 1 / 3:
            d2 = dict(dm, objectives=objs, matrix=[list(r) for r in dm["matrix"]], weights=list(dm["weights"]))
        else:
            same_alts = rng.random() < 0.5
            m = len(dm["matrix"]) if same_alts else rng.randint(2, 8)
            family = dm["family"]
            if wpositive or n < 2:
                w = G.weights(rng, n, family)
            else:
                w = c11.vec(rng, n, family, rng.choice(["mixed", "zero", "minzero"]))
            A = whole(matrix(rng, m, n, family, positive, objs), dm["dtypes"], positive)
            d2 = dict(dm, matrix=A, objectives=objs, weights=w,
                      alternatives=list(dm["alternatives"]) if same_alts else G.labels(rng, G.LABEL_POOL_ALT, m))
        if domain_ok(pipe, d2):
            return d2
    return None


NAME_POOL = ["scale", "invert", "step", "t", "norm", "a", "b", "pre", "x", "scaler"]


def step_names(rng, k):
    """how the pipeline OBJECT of a case is built: None = steps applied by hand, one fresh transformer after the other (no pipeline
    object); "mkpipe" = skcriteria.pipeline.mkpipe (generated unique names); a list of k + 1 user-given names (k transformers and the
    closing decision maker) = the public constructor SKCPipeline(steps=[(name, step), ...]) - all different, or with REPEATED names:
    two or more steps (transformers, at times the decision maker too) share one name"""
    r = rng.random()
    if r < 0.4:
        return None
    if r < 0.5:
        return "mkpipe"
    if r < 0.65 or k < 1:
        return rng.sample(NAME_POOL, k + 1)
    pool = rng.sample(NAME_POOL, rng.randint(1, max(1, (k + 1) // 2)))
    names = [rng.choice(pool) for _ in range(k + 1)]
    if k >= 2:  # at least two TRANSFORMER steps share a name
        i, j = rng.sample(range(k), 2)
        names[j] = names[i]
        if rng.random() < 0.7:  # ... and usually the decision maker has a name of its own
            names[k] = rng.choice([x for x in NAME_POOL if x not in names[:k]])
    else:
        names[k] = names[0]
    return names


def finish(rng, kind, dm, steps, positive, wpositive):
    case = {"kind": kind, "dm": dm, "pipelines": [steps], "names": [step_names(rng, len(steps))]}
    if rng.random() < 0.5:
        d2 = second_dm(rng, dm, steps, positive, wpositive)
        if d2 is not None:
            case["second"] = d2
    return case


INVERTERS = ("NegateMinimize", "InvertMinimize")
HISTORY_MODES = ("objectives", "matrix", "both")


def what_if(rng, dm, pipe, mode):
    """the replacement handed to dm.copy(**replacement) BEFORE the pipeline sees dm (the copy is thrown away): objectives flipped on a
    random non-empty subset of the criteria (mode objectives / both) and / or a matrix of the same shape and dtypes holding OTHER
    values (mode matrix / both): the rows of dm permuted (1/2) or freshly drawn cells (1/2), such that at least one pair of
    alternatives is ordered differently on some criterion than in dm, and inside the sign domain of the pipeline as well.  None if no
    such replacement was drawn"""
    A, objs = dm["matrix"], dm["objectives"]
    m, n = len(A), len(objs)
    h = {"mode": mode}
    if mode in ("objectives", "both"):
        flip = set(rng.sample(range(n), rng.randint(1, n)))
        h["objectives"] = [-o if j in flip else o for j, o in enumerate(objs)]
    if mode in ("matrix", "both"):
        positive = all(v > 0 for r in A for v in r)
        dtypes = dm.get("dtypes") or ["float"] * n
        for _ in range(40):
            if rng.random() < 0.5:
                perm = list(range(m))
                rng.shuffle(perm)
                B = [list(A[i]) for i in perm]
            else:
                B = whole(matrix(rng, m, n, dm["family"], positive, h.get("objectives", objs)), dtypes, positive)
            other_order = any(sign(A[a][j] - A[b][j]) != sign(B[a][j] - B[b][j]) for j in range(n) for a in range(m) for b in range(a + 1, m))
            if other_order and domain_ok(pipe, dict(dm, matrix=B, objectives=h.get("objectives", objs))):
                h["matrix"] = B
                break
        else:
            return None
    return h


def with_history(rng, case, mode):
    """the decision matrix of the case (and, one time in two, the second one as well) has served as the base of a what-if copy before
    the transformers see it: case["history"][k] is the replacement for the k-th decision matrix of the case (None = no copy made)"""
    pipe = case["pipelines"][0]
    hist = []
    for k, dm in enumerate(case_dms(case)):
        hist.append(what_if(rng, dm, pipe, mode if k == 0 else rng.choice(HISTORY_MODES)) if k == 0 or rng.random() < 0.5 else None)
    if hist[0] is None:
        return None
    case["history"] = hist
    return case


def single_case(rng, cfg, history=None):
    step = concrete(rng, cfg)
    needs_pos = step["name"] in POS_ONLY or step["name"] == "InvertMinimize"
    positive, wpositive = needs_pos or rng.random() < 0.3, needs_pos or rng.random() < 0.6
    dm = base_dm(rng, positive=positive, wpositive=wpositive)
    if history is not None:
        return with_history(rng, finish(rng, "hist", dm, [step], positive, wpositive), history)
    return finish(rng, "single", dm, [step], positive, wpositive)


def sequence_case(rng, by_name, chained=False, with_inverter=False, history=None):
    """with_inverter: a sequence without an objective inverter gets one appended (InvertMinimize where the matrix is positive at
    that point, NegateMinimize otherwise); history: see what_if.
    chained: the data starts OUTSIDE the positive domain and a prefix of the sequence establishes it (MinMaxScaler onto a positive
    range, or PushNegatives then AddValueToZero with a positive value); the steps that follow are drawn with the positive-data
    transformers (InvertMinimize, SumScaler, VectorScaler, MaxAbsScaler) favoured: their domain holds only because of the earlier steps"""
    names = sorted(by_name)
    positive, wpositive = (False, rng.random() < 0.7) if chained else (rng.random() < 0.5, rng.random() < 0.7)
    dm = base_dm(rng, positive=positive, wpositive=wpositive)
    mst = state_of([v for r in dm["matrix"] for v in r])
    wst = state_of(dm["weights"])
    objs = list(dm["objectives"])
    steps = []

    def push(st):
        nonlocal mst, wst, objs
        steps.append(st)
        mst, wst, objs = advance(st, mst, wst, objs)

    if chained:
        t = rng.choice(["matrix", "matrix", "both"])
        if rng.random() < 0.7:
            lo = rng.randint(1, 24) / 8
            push({"name": "MinMaxScaler", "target": t, "params": {"lo": lo, "hi": lo + rng.randint(1, 32) / 8, "clip": rng.random() < 0.5}})
        else:
            push({"name": "PushNegatives", "target": t, "params": {}})
            push({"name": "AddValueToZero", "target": t, "params": {"value": rng.choice([1.0, 0.5, 0.125, 3.75])}})
    pos_names = [x for x in names if x in POS_ONLY or x == "InvertMinimize"]
    for _ in range(rng.randint(2, 4) if chained else rng.randint(1, 5)):
        for _try in range(50):
            pick = rng.choice(pos_names) if chained and rng.random() < 0.6 else rng.choice(names)
            name, target, params = cfg = rng.choice(by_name[pick])
            ok = allowed_targets(name, mst, wst)
            if target in ok:
                break
        else:
            break
        push(concrete(rng, cfg))
    if with_inverter and not any(st["name"] in INVERTERS for st in steps):
        push({"name": "InvertMinimize" if mst == "pos" and rng.random() < 0.5 else "NegateMinimize", "target": "matrix", "params": {}})
    if history is not None:
        return with_history(rng, finish(rng, "hist", dm, steps, positive, wpositive), history)
    return finish(rng, "chain" if chained else "seq", dm, steps, positive, wpositive)


# ----------------------------------------------------------------------------- scaled values that are distinct but tiny

# the scalers whose output can hold distinct values that are tiny next to the output scale (1, or the configured range)
TINY_NAMES = ["MinMaxScaler", "StandarScaler", "MaxAbsScaler", "MinMaxScaler", "StandarScaler", "MaxAbsScaler", "SumScaler",
              "VectorScaler"]
SCALE_FREE = ("MaxAbsScaler", "SumScaler", "VectorScaler")


def _cluster_column(rng, step, col):
    """rewrite 2..3 cells of a column (or of the weight vector) of arbitrary doubles so that their SCALED values are pairwise
    distinct - 3e-9 .. 2e-8 of the output scale apart, clearly more than the rounding margin - while all lie within a few 1e-8 of
    one point of the output: 0 where the scaler can reach it (MaxAbsScaler / SumScaler / VectorScaler: tiny positive values;
    StandarScaler: next to the mean / next to 0; MinMaxScaler: next to the pre-image of 0 when the range holds 0) and the lower
    end of the range otherwise.  The other cells (the frame: they fix minimum, maximum, mean, deviation) stay.  None if the column
    cannot hold such a cluster"""
    name, params = step["name"], step["params"]
    k = len(col)
    c = rng.choice([2, 2, 3]) if k >= 5 else 2
    idx = rng.sample(range(k), c)
    frame = [col[i] for i in range(k) if i not in idx]
    if len(set(frame)) < 2:
        return None
    mn, mx = min(frame), max(frame)
    signs = [1] * c
    outscale = 1.0
    if name == "MinMaxScaler":
        lo, hi = params["lo"], params["hi"]
        outscale = max(1.0, abs(lo), abs(hi))
        slope = (mx - mn) / (hi - lo)
        if lo < 0 < hi:
            x0, signs = mn + (0 - lo) * slope, [rng.choice([1, -1]) for _ in range(c)]
        elif hi == 0:
            x0, signs = mx, [-1] * c
        else:
            x0 = mn  # lo >= 0: the values land just above the lower end of the range (above 0 when lo == 0)
    elif name in SCALE_FREE:
        x0 = 0.0
        slope = {"MaxAbsScaler": mx, "SumScaler": sum(frame), "VectorScaler": math.sqrt(sum(v * v for v in frame))}[name]
    elif name == "StandarScaler":
        x0 = sum(frame) / len(frame) if params["with_mean"] else 0.0
        full = frame + [x0] * c
        mu = sum(full) / k
        slope = math.sqrt(sum((v - mu) ** 2 for v in full) / k) if params["with_std"] else 1.0
        if not params["with_std"]:
            outscale = max(1.0, max(abs(v - (mu if params["with_mean"] else 0.0)) for v in full))
        if params["with_mean"] or min(col) < 0:
            signs = [rng.choice([1, -1]) for _ in range(c)]
    else:
        return None
    if not slope > 0:
        return None
    y, ys = rng.uniform(0.3e-9, 6e-9), []
    for _ in range(c):
        ys.append(y)
        y += 10 ** rng.uniform(-8.5, -7.7)
    if x0 != 0.0 and rng.random() < 0.3:
        ys[0] = 0.0  # one member sits exactly on the point
    out = list(col)
    for i, yy, sg in zip(idx, ys, signs):
        out[i] = x0 + sg * yy * outscale * slope
    return out


def _cluster_ok(step, before, after):
    """the rewritten cells are what they are meant to be, judged on the EXACT scaled values: pairwise further apart than the
    rounding margin (and than 3e-9 of the output scale), far from being neighbouring doubles on the input side"""
    changed = [i for i in range(len(before)) if before[i] != after[i]]
    if len(changed) < 2 or len({after[i] for i in changed}) < len(changed):
        return False
    E = exact_part(step["name"], step["params"], [C.F(v) for v in after])
    scale = max([Fraction(1)] + [abs(e) for e in E])
    for a, b in itertools.combinations(changed, 2):
        if abs(E[a] - E[b]) <= Fraction(3, 10 ** 9) * scale or near_tie(after[a], after[b]):
            return False
    return True


def tiny_case(rng, cfg, by_name):
    """a decision matrix of arbitrary doubles in which some criteria (target matrix / both) and / or the weight vector (target
    weights / both) hold a cluster of cells whose scaled values are distinct but tiny (see _cluster_column), the scaler alone (2/3)
    or followed by 1..2 more steps drawn as in sequence_case (1/3)"""
    step = concrete(rng, cfg)
    needs_pos = step["name"] in POS_ONLY
    for _ in range(60):
        m, n = rng.randint(4, 8), rng.randint(4, 5)
        positive = needs_pos or rng.random() < 0.5
        objs = G.objectives(rng, n, rng.choice(["mixed", "mixed", "mixed", "min", "max"]))
        A = G.matrix(rng, m, n, "float", positive=positive, ties=0.15, dups=0.0, dominated=0.2, objs=objs)
        w = G.weights(rng, n, "float")
        done = 0
        if step["target"] in ("matrix", "both"):
            cols = [j for j in range(n) if rng.random() < 0.6] or [rng.randrange(n)]
            for j in cols:
                col = [A[i][j] for i in range(m)]
                new = _cluster_column(rng, step, col)
                if new is not None and _cluster_ok(step, col, new):
                    for i in range(m):
                        A[i][j] = new[i]
                    done += 1
        if step["target"] in ("weights", "both"):
            new = _cluster_column(rng, step, w)
            if new is not None and _cluster_ok(step, w, new):
                w, done = new, done + 1
        if not done:
            continue
        if needs_pos and (min(v for r in A for v in r) <= 0 or min(w) <= 0):
            continue
        dm = {"matrix": A, "objectives": objs, "weights": w, "alternatives": G.labels(rng, G.LABEL_POOL_ALT, m),
              "criteria": G.labels(rng, G.LABEL_POOL_CRIT, n), "family": "float", "dtypes": ["float"] * n}
        if not domain_ok([step], dm):
            continue
        steps = [step]
        if rng.random() < 1 / 3:
            mst, wst, o = advance(step, state_of([v for r in A for v in r]), state_of(w), list(objs))
            names = sorted(by_name)
            for _ in range(rng.randint(1, 2)):
                for _try in range(50):
                    nm, target, params = nxt = rng.choice(by_name[rng.choice(names)])
                    if target in allowed_targets(nm, mst, wst):
                        break
                else:
                    break
                st = concrete(rng, nxt)
                steps.append(st)
                mst, wst, o = advance(st, mst, wst, o)
        return finish(rng, "tiny", dm, steps, positive, min(w) > 0)
    return None


# ----------------------------------------------------------------------------- values that differ only beyond 7 significant digits


def _draw_steps(rng, by_name, mst, wst, objs, k):
    """k further steps drawn as in sequence_case among those whose domain holds at that point"""
    names, steps = sorted(by_name), []
    for _ in range(k):
        for _try in range(50):
            nm, target, params = nxt = rng.choice(by_name[rng.choice(names)])
            if target in allowed_targets(nm, mst, wst):
                break
        else:
            break
        st = concrete(rng, nxt)
        steps.append(st)
        mst, wst, objs = advance(st, mst, wst, objs)
    return steps


def close_case(rng, cfg, by_name):
    """(f) a decision matrix of arbitrary doubles in which some criteria hold 2..3 alternatives whose values differ only beyond
    7 significant digits: v, v(1 + d), v(1 + 2d) with d = 1e-12 .. 1e-8 (one draw in two in the upper half decade 3e-9 .. 1e-8), exact
    distinct doubles far from being neighbouring ones (1000.00001 vs 1000.00002).  v is a cell of the criterion, a round figure, or
    (one in two) the largest magnitude of the criterion, so that the pair is not small next to the output scale.  The transformer of
    the configuration alone (1/2), followed by 1..2 more steps (1/4) or a sequence drawn as in (b) (1/4)"""
    step = concrete(rng, cfg)
    needs_pos = step["name"] in POS_ONLY or step["name"] == "InvertMinimize"
    for _ in range(60):
        m, n = rng.randint(3, 8), rng.randint(1, 5)
        positive = needs_pos or rng.random() < 0.5
        objs = G.objectives(rng, n, rng.choice(["mixed", "mixed", "mixed", "min", "max"]))
        A = G.matrix(rng, m, n, "float", positive=positive, ties=0.15, dups=0.0, dominated=0.2, objs=objs)
        w = G.weights(rng, n, "float")
        ok = True
        for j in [j for j in range(n) if rng.random() < 0.6] or [rng.randrange(n)]:
            c = rng.choice([2, 2, 3]) if m >= 4 else 2
            idx = rng.sample(range(m), c)
            rest = [A[i][j] for i in range(m) if i not in idx]
            r = rng.random()
            if r < 0.5:
                v = max(abs(x) for x in rest) * rng.uniform(1.0, 2.0)
            elif r < 0.75:
                v = abs(rng.choice(rest))
            else:
                v = rng.choice([1000.0, 250.0, 37.5, 12345.0, 99999.0, 1.0, 0.001])
            if not positive and rng.random() < 0.3:
                v = -v
            d = 10 ** (rng.uniform(-8.5, -8.0) if rng.random() < 0.5 else rng.uniform(-12.0, -8.0))
            vals = [v * (1 + t * d) for t in range(c)]
            if v == 0 or any(near_tie(a, b) for a, b in itertools.combinations(vals, 2)):
                ok = False
                break
            rng.shuffle(vals)
            for i, x in zip(idx, vals):
                A[i][j] = x
        if not ok:
            continue
        dm = {"matrix": A, "objectives": objs, "weights": w, "alternatives": G.labels(rng, G.LABEL_POOL_ALT, m),
              "criteria": G.labels(rng, G.LABEL_POOL_CRIT, n), "family": "float", "dtypes": ["float"] * n}
        mst, wst = state_of([x for r in A for x in r]), state_of(w)
        r = rng.random()
        if r < 0.75:
            if not domain_ok([step], dm):
                continue
            steps = [step]
            if r >= 0.5:
                steps += _draw_steps(rng, by_name, *advance(step, mst, wst, list(objs)), rng.randint(1, 2))
        else:
            steps = _draw_steps(rng, by_name, mst, wst, list(objs), rng.randint(1, 4))
            if not steps:
                continue
        return finish(rng, "close", dm, steps, positive, True)
    return None


# ----------------------------------------------------------------------------- very long matrices

# the transformers whose per-criterion statistic is the minimum, the maximum or the presence of a 0: a sub-matrix that holds the rows
# where these are attained is transformed (by the model) exactly as the full one
LONG_STEPS = ("PushNegatives", "AddValueToZero", "MinMaxScaler", "MaxAbsScaler", "NegateMinimize", "InvertMinimize")


def _long_pipe(rng, i, t):
    push = {"name": "PushNegatives", "target": t, "params": {}}
    add = {"name": "AddValueToZero", "target": t, "params": {"value": rng.choice([1.0, 0.5, 0.125, 3.75])}}
    inv = {"name": "InvertMinimize", "target": "matrix", "params": {}}
    neg = {"name": "NegateMinimize", "target": "matrix", "params": {}}
    lo = rng.randint(1, 24) / 8
    mmx = {"name": "MinMaxScaler", "target": t, "params": {"lo": lo, "hi": lo + rng.randint(1, 32) / 8, "clip": rng.random() < 0.5}}
    return [
        [push],
        [push, add, inv],
        [{"name": "AddValueToZero", "target": t, "params": {"value": rng.choice([1.0, 0.5, -0.5, 2.25])}}],
        [push, add, {"name": "MaxAbsScaler", "target": "matrix", "params": {}}, inv],
        [push, neg],
        [mmx, inv],
        [neg, push, add],
        [push, add],
    ][i % 8]


def long_case(rng, i):
    """(g) a VERY LONG decision matrix: 4097 .. 9000 alternatives x 2..3 criteria, whole numbers -20 .. 20 or eighths -2.5 .. 2.5
    (float64 or all int64), in which the most negative value of every criterion (1..3 cells, clearly below the rest) sits ONLY in a
    block of rows at the start or at the end of the matrix (block of 1 .. 4096 rows); 2..3 alternatives at the far end are copies
    of one at the near end made worse on some criteria (dominance between far-apart alternatives).  Pipelines: PushNegatives,
    AddValueToZero, and sequences of them with MinMaxScaler / MaxAbsScaler / NegateMinimize, most ending in InvertMinimize.
    probe: the rows whose dominance tables are read (the planted ones and a few of each end)"""
    m, n = rng.randint(4097, 9000), rng.randint(2, 3)
    objs = G.objectives(rng, n, "mixed")
    ints = rng.random() < 0.6
    unit = 1.0 if ints else 0.125
    A = [[rng.randint(-20, 20) * unit for _ in range(n)] for _ in range(m)]
    B = min(rng.choice([1, 16, 256, 1024, 4096, 4096]), m // 2)
    first = rng.random() < 0.5
    block = range(0, B) if first else range(m - B, m)
    F = max(64, min(B, 2048))
    far = range(m - F, m) if first else range(0, F)
    probe = set()
    for j in range(n):
        deep = -rng.randint(30, 120) * unit
        for i in rng.sample(block, min(len(block), rng.randint(1, 3))):
            A[i][j] = deep
            probe.add(i)
    for _ in range(rng.randint(2, 3)):  # dominance between far-apart alternatives
        a, b = rng.choice(block), rng.choice(far)
        if b in probe or a == b:
            continue
        A[b] = list(A[a])
        for j in rng.sample(range(n), rng.randint(1, n)):
            nv = A[a][j] - objs[j] * rng.randint(1, 8) * unit  # worse under the objective of the criterion
            A[b][j] = nv if nv >= -20 * unit else A[a][j]
        probe |= {a, b}
    probe |= set(rng.sample(block, min(len(block), 3))) | set(rng.sample(far, 3)) | {0, m - 1, rng.randrange(m)}
    dtypes = ["int"] * n if ints and rng.random() < 0.5 else ["float"] * n
    dm = {"matrix": A, "objectives": objs, "weights": G.weights(rng, n, "dyadic"), "alternatives": ["r%d" % i for i in range(m)],
          "criteria": G.labels(rng, G.LABEL_POOL_CRIT, n), "family": "dyadic", "dtypes": dtypes, "via": False}
    steps = _long_pipe(rng, i, rng.choice(["matrix", "matrix", "both"]))
    if not domain_ok(steps, dm):
        return None
    return {"kind": "long", "dm": dm, "pipelines": [steps], "names": [step_names(rng, len(steps))], "probe": sorted(probe)}


EXH_ANY = [
    {"name": "MinMaxScaler", "target": "matrix", "params": {"lo": 0.0, "hi": 1.0, "clip": False}},
    {"name": "MinMaxScaler", "target": "both", "params": {"lo": -1.0, "hi": 2.0, "clip": True}},
    {"name": "StandarScaler", "target": "matrix", "params": {"with_mean": True, "with_std": True}},
    {"name": "StandarScaler", "target": "matrix", "params": {"with_mean": False, "with_std": True}},
    {"name": "PushNegatives", "target": "matrix", "params": {}},
    {"name": "AddValueToZero", "target": "matrix", "params": {"value": 1.0}},
    {"name": "AddValueToZero", "target": "both", "params": {"value": -0.5}},
    {"name": "NegateMinimize", "target": "matrix", "params": {}},
]
EXH_POS = [
    {"name": "SumScaler", "target": "both", "params": {}},
    {"name": "VectorScaler", "target": "matrix", "params": {}},
    {"name": "MaxAbsScaler", "target": "matrix", "params": {}},
    {"name": "InvertMinimize", "target": "matrix", "params": {}},
]


def exhaustive_cases():
    out = []
    for m in (1, 2, 3):
        for n in (1, 2):
            for alphabet, pipes in (((-1.0, 0.0, 1.0, 2.0), EXH_ANY), ((1.0, 2.0), EXH_POS)):
                for cells in itertools.product(alphabet, repeat=m * n):
                    mat = [list(cells[i * n:(i + 1) * n]) for i in range(m)]
                    for objs in itertools.product((1, -1), repeat=n):
                        dm = {"matrix": mat, "objectives": list(objs), "weights": [1.0, 2.0][:n],
                              "alternatives": [f"A{i}" for i in range(m)], "criteria": [f"C{j}" for j in range(n)], "family": "dyadic"}
                        out.append({"kind": "exh", "dm": dm, "pipelines": [[p] for p in pipes]})
    # the same with integer-typed criteria: ALL int64, and (two criteria) int64 next to float64.  The positive alphabet gets a third
    # value so that a criterion can hold two different values >= 2; the 4-letter alphabet is kept to shapes of <= 4 cells
    for m in (1, 2, 3):
        for n in (1, 2):
            for alphabet, pipes in (((-1.0, 0.0, 1.0, 2.0), EXH_ANY), ((1.0, 2.0, 3.0), EXH_POS)):
                if len(alphabet) == 4 and m * n > 4:
                    continue
                for dtypes in (["int"] * n, ["int", "float"], ["float", "int"]):
                    if len(dtypes) != n or ("float" in dtypes and m > 2):
                        continue
                    for cells in itertools.product(alphabet, repeat=m * n):
                        mat = [list(cells[i * n:(i + 1) * n]) for i in range(m)]
                        for objs in itertools.product((1, -1), repeat=n):
                            dm = {"matrix": mat, "objectives": list(objs), "weights": [1.0, 2.0][:n], "alternatives": [f"A{i}" for i in range(m)],
                                  "criteria": [f"C{j}" for j in range(n)], "family": "dyadic", "dtypes": dtypes}
                            out.append({"kind": "exh", "dm": dm, "pipelines": [[p] for p in pipes]})
    return out


def gen(ctx):
    rng = ctx.rng
    cfgs = configs()
    by_name = {}
    for c in cfgs:
        by_name.setdefault(c[0], []).append(c)
    names = sorted(by_name)
    for nm in names:
        rng.shuffle(by_name[nm])
    cases = []
    for i in range(ctx.n(180, 3000)):
        lst = by_name[names[i % len(names)]]
        cases.append(single_case(rng, lst[(i // len(names)) % len(lst)]))
    for i in range(ctx.n(210, 3600)):
        cases.append(sequence_case(rng, by_name, chained=i % 3 == 2))
    for i in range(ctx.n(120, 1600)):
        lst = by_name[TINY_NAMES[i % len(TINY_NAMES)]]
        case = tiny_case(rng, lst[(i // len(TINY_NAMES)) % len(lst)], by_name)
        if case is not None:
            cases.append(case)
    # (e) HISTORIES: dm.copy(objectives=... / matrix=...) on the decision matrix (the copy is thrown away), THEN the pipeline on dm
    # itself.  A fixed share of every run: mode objectives -> a single inverter / a sequence that holds an inverter (the steps that
    # read the objectives); mode matrix / both -> every transformer in turn / sequences
    inv = [c for c in cfgs if c[0] in INVERTERS]
    inv = [next(c for c in inv if c[0] == nm) for nm in INVERTERS]
    k, want = 0, ctx.n(120, 600)
    for i in range(4 * want):
        if k >= want:
            break
        r = i % 6
        if r == 0:
            case = single_case(rng, inv[(i // 6) % 2], history="objectives")
        elif r == 1:
            lst = by_name[names[(i // 6) % len(names)]]
            case = single_case(rng, lst[(i // (6 * len(names))) % len(lst)], history="matrix")
        elif r == 2:
            case = sequence_case(rng, by_name, chained=(i // 6) % 3 == 2, with_inverter=True, history="objectives")
        elif r == 3:
            case = sequence_case(rng, by_name, chained=(i // 6) % 3 == 2, history="matrix")
        elif r == 4:
            case = sequence_case(rng, by_name, chained=(i // 6) % 3 == 2, with_inverter=True, history="both")
        else:
            lst = by_name[names[(i // 6 + 5) % len(names)]]
            case = single_case(rng, lst[(i // (6 * len(names))) % len(lst)], history="both")
        if case is not None:
            cases.append(case)
            k += 1
    # (f) values that differ only beyond 7 significant digits, every transformer (target matrix / both) and the inverters in turn
    close_cfgs = {nm: [c for c in lst if c[1] != "weights"] for nm, lst in by_name.items()}
    for i in range(ctx.n(220, 1200)):
        lst = close_cfgs[names[i % len(names)]]
        case = close_case(rng, lst[(i // len(names)) % len(lst)], by_name)
        if case is not None:
            cases.append(case)
    # (g) very long matrices, the most negative values in the first / last block of rows only
    k, want = 0, ctx.n(8, 24)
    for i in range(4 * want):
        if k >= want:
            break
        case = long_case(rng, i)
        if case is not None:
            cases.append(case)
            k += 1
    if ctx.thorough:
        cases += exhaustive_cases()
    return cases


# ----------------------------------------------------------------------------- the implementation


def build(step):
    from skcriteria.preprocessing import invert_objectives

    if step["name"] == "NegateMinimize":
        return invert_objectives.NegateMinimize()
    if step["name"] == "InvertMinimize":
        return invert_objectives.InvertMinimize()
    return c11.build(step["name"], step["target"], step["params"])


def _tables(dm):
    return [dm.dominance.dominance(strict=s).to_numpy().astype(bool).tolist() for s in (False, True)]


def case_dms(case):
    """the decision matrices of a case, in the order in which the SAME transformer objects see them"""
    return [case["dm"]] + ([case["second"]] if case.get("second") else [])


def make_pipeline(pipe, names):
    """the pipeline OBJECT of a case (see step_names); the closing decision maker is never evaluated"""
    from skcriteria.agg.simple import WeightedSumModel
    from skcriteria.pipeline import SKCPipeline, mkpipe

    objs = [build(step) for step in pipe] + [WeightedSumModel()]
    if names == "mkpipe":
        return mkpipe(*objs)
    return SKCPipeline(steps=list(zip(names, objs)))


def _run(cur):
    mat = np.asarray(cur.matrix.to_numpy(), dtype=float)
    w = np.asarray(cur.weights.to_numpy(), dtype=float)
    return {"matrix": mat.tolist(), "weights": w.tolist(), "objectives": [int(x) for x in cur.iobjectives.to_numpy()],
            "finite": bool(np.all(np.isfinite(mat))), "after": _tables(cur)}


def apply_history(dm, h, dtypes=None):
    """the documented what-if call on a decision matrix: dm.copy(<replacement>); the copy is thrown away"""
    kw = {}
    if h.get("objectives") is not None:
        kw["objectives"] = list(h["objectives"])
    if h.get("matrix") is not None:
        arr = np.array(h["matrix"], dtype=float)
        kw["matrix"] = arr.astype(np.int64) if dtypes and all(t == "int" for t in dtypes) else arr
    dm.copy(**kw)


def observe(case):
    """history (if any): dm.copy(<replacement>) on the decision matrices of the case, after their dominance tables were read and
    before any transformer sees them.  runs: for every pipeline, for every decision matrix of the case (the second one goes through the SAME objects as the first),
    the output of the pipeline.  Built as an object (SKCPipeline / mkpipe): `by_hand` is the output of the same steps applied one
    after the other with fresh transformers to that matrix alone"""
    if case.get("kind") == "long":
        return observe_long(case)
    with M.quiet():
        dms = [c11.mkdm(d) for d in case_dms(case)]
        out = {"before": _tables(dms[0]), "before_all": [_tables(d) for d in dms], "runs": []}
        for d, src, h in zip(dms, case_dms(case), case.get("history") or []):
            if h:
                try:
                    apply_history(d, h, src.get("dtypes"))
                except Exception as e:
                    out["history_err"] = {"err": G.err_name(e), "msg": str(e)[:200]}
        for k, pipe in enumerate(case["pipelines"]):
            names = (case.get("names") or [None] * len(case["pipelines"]))[k]
            try:
                obj = make_pipeline(pipe, names) if names is not None else [build(step) for step in pipe]
                broken = None
            except Exception as e:
                broken = {"err": G.err_name(e), "msg": "building the pipeline: " + str(e)[:200]}
            for which, dm in enumerate(dms):
                if broken:
                    out["runs"].append(dict(broken, pipe=k, which=which))
                    continue
                try:
                    if names is not None:
                        cur = obj.transform(dm)
                    else:
                        cur = dm
                        for T in obj:
                            cur = T.transform(cur)
                    run = _run(cur)
                except Exception as e:
                    run = {"err": G.err_name(e), "msg": str(e)[:200]}
                if names is not None:
                    try:
                        cur = dm
                        for step in pipe:
                            cur = build(step).transform(cur)
                        ref = _run(cur)
                        run["by_hand"] = {x: ref[x] for x in ("matrix", "weights", "objectives")}
                    except Exception as e:
                        run["by_hand"] = {"err": G.err_name(e), "msg": str(e)[:200]}
                run["pipe"], run["which"] = k, which
                out["runs"].append(run)
        return out


def observe_long(case):
    """a very long matrix: the whole matrix goes through the pipeline (object / by hand, as everywhere) and the whole output is
    reported; the dominance tables are read on the alternatives case["probe"] only (dm.loc[<labels>], before and after): the
    relation among them is the restriction of the relation of the whole matrix, which has tens of millions of pairs"""
    with M.quiet():
        dm = c11.mkdm(case["dm"])
        labels = [case["dm"]["alternatives"][i] for i in case["probe"]]
        before = _tables(dm.loc[labels])
        out = {"before": before, "before_all": [before], "runs": []}
        pipe, names = case["pipelines"][0], case["names"][0]

        def report(cur):
            mat = np.asarray(cur.matrix.to_numpy(), dtype=float)
            return {"matrix": mat.tolist(), "weights": np.asarray(cur.weights.to_numpy(), dtype=float).tolist(),
                    "objectives": [int(x) for x in cur.iobjectives.to_numpy()], "finite": bool(np.all(np.isfinite(mat))),
                    "alternatives_kept": np.asarray(cur.alternatives).tolist() == case["dm"]["alternatives"], "after": _tables(cur.loc[labels])}

        try:
            if names is not None:
                cur = make_pipeline(pipe, names).transform(dm)
            else:
                cur = dm
                for step in pipe:
                    cur = build(step).transform(cur)
            run = report(cur)
        except Exception as e:
            run = {"err": G.err_name(e), "msg": str(e)[:200]}
        if names is not None:
            try:
                cur = dm
                for step in pipe:
                    cur = build(step).transform(cur)
                ref = report(cur)
                run["by_hand"] = {x: ref[x] for x in ("matrix", "weights", "objectives")}
            except Exception as e:
                run["by_hand"] = {"err": G.err_name(e), "msg": str(e)[:200]}
        run["pipe"], run["which"] = 0, 0
        out["runs"].append(run)
        return out


def witness_rows(dm, pipe):
    """the rows where, at some step of the pipeline evaluated exactly, a criterion attains its minimum, its maximum or holds a 0:
    the statistics the LONG_STEPS transformers read.  A sub-matrix holding these rows goes through the pipeline as the whole"""
    n = len(dm["objectives"])
    cols = [[C.F(r[j]) for r in dm["matrix"]] for j in range(n)]
    objs, rows = list(dm["objectives"]), set()
    for st in pipe:
        for c in cols:
            rows |= {min(range(len(c)), key=c.__getitem__), max(range(len(c)), key=c.__getitem__)}
            if 0 in c:
                rows.add(c.index(0))
        name = st["name"]
        if name == "NegateMinimize":
            cols = [[-v for v in c] if o == -1 else c for c, o in zip(cols, objs)]
            objs = [1] * n
        elif name == "InvertMinimize":
            cols = [[1 / v for v in c] if o == -1 else c for c, o in zip(cols, objs)]
            objs = [1] * n
        elif st["target"] in ("matrix", "both"):
            cols = [exact_part(name, st["params"], c) for c in cols]
    return rows


def long_subset(case):
    """the rows sent to the model: the probed alternatives first, then the witness rows"""
    probe = list(case["probe"])
    return probe + sorted(witness_rows(case["dm"], case["pipelines"][0]) - set(probe))


def pipe_domain(pipe):
    return "float" if any(s["name"] in FLOAT_ONLY for s in pipe) else "rat"


def requests(case, obs):
    reqs = []
    if case.get("kind") == "long":
        if "err" in obs["runs"][0]:
            return []
        dm, pipe = case["dm"], case["pipelines"][0]
        assert all(s["name"] in LONG_STEPS for s in pipe)
        rows = long_subset(case)
        return [{"op": "tr", "domain": "rat", "M": [[C.rat(x) for x in dm["matrix"][i]] for i in rows],
                 "O": ["max" if o == 1 else "min" for o in dm["objectives"]], "w": [C.rat(x) for x in dm["weights"]],
                 "steps": [c11.tr_step(s["name"], s["target"], s["params"], C.rat) for s in pipe],
                 "dom": [{"m": "dominance", "strict": False}, {"m": "dominance", "strict": True}]}]
    for pipe in case["pipelines"]:
        domain = pipe_domain(pipe)
        enc = C.fbits if domain == "float" else C.rat
        for dm in case_dms(case):  # same order as obs["runs"]
            reqs.append({"op": "tr", "domain": domain, "M": [[enc(x) for x in row] for row in dm["matrix"]],
                         "O": ["max" if o == 1 else "min" for o in dm["objectives"]], "w": [enc(x) for x in dm["weights"]],
                         "steps": [c11.tr_step(s["name"], s["target"], s["params"], enc) for s in pipe],
                         "dom": [{"m": "dominance", "strict": False}, {"m": "dominance", "strict": True}]})
    return reqs


# ----------------------------------------------------------------------------- exact transformed values (Fraction / 60-digit Decimal)

MARGIN = Fraction(1, 10 ** 9)  # the rounding margin of one output value, relative to the scale of the output


def _sqrt(q):
    return Fraction(c11.D(q).sqrt())


def exact_part(name, params, x):
    """the documented formula of a transformer on ONE criterion (or on the weight vector), in exact arithmetic (square roots to
    60 digits): list of Fractions -> list of Fractions.  Written from the documentation, as c11.normal_form"""
    k = len(x)
    if name == "SumScaler":
        s = sum(x)
        return [v / s for v in x]
    if name == "VectorScaler":
        nrm = _sqrt(sum(v * v for v in x))
        return [v / nrm for v in x]
    if name == "MaxAbsScaler":
        mx = max(abs(v) for v in x)
        return [v / mx for v in x]
    if name == "MinMaxScaler":
        lo, hi = C.F(params["lo"]), C.F(params["hi"])
        mn, mx = min(x), max(x)
        if mx == mn:
            return [lo] * k
        return [(v - mn) / (mx - mn) * (hi - lo) + lo for v in x]
    if name == "StandarScaler":
        mean = sum(x) / k
        var = sum((v - mean) ** 2 for v in x) / k
        u = mean if params["with_mean"] else 0
        s = _sqrt(var) if params["with_std"] and var > 0 else 1
        return [(v - u) / s for v in x]
    if name == "PushNegatives":
        mn = min(x)
        return [v - mn for v in x] if mn < 0 else list(x)
    if name == "AddValueToZero":
        return [v + C.F(params["value"]) for v in x] if any(v == 0 for v in x) else list(x)
    raise ValueError(name)


def exact_matrix(dm, pipe):
    """the matrix of a decision matrix after the steps of a pipeline, every step evaluated exactly on the exact output of the
    one before (rows of Fractions)"""
    cols = [[C.F(r[j]) for r in dm["matrix"]] for j in range(len(dm["objectives"]))]
    objs = list(dm["objectives"])
    for st in pipe:
        name = st["name"]
        if name == "NegateMinimize":
            cols = [[-v for v in c] if o == -1 else c for c, o in zip(cols, objs)]
            objs = [1] * len(objs)
        elif name == "InvertMinimize":
            cols = [[1 / v for v in c] if o == -1 else c for c, o in zip(cols, objs)]
            objs = [1] * len(objs)
        elif st["target"] in ("matrix", "both"):
            cols = [exact_part(name, st["params"], c) for c in cols]
    return [[c[i] for c in cols] for i in range(len(dm["matrix"]))]


def near_tie(a, b):
    """two input cells that are (almost) neighbouring doubles: apart by less than 2^-40 of their own magnitude.  What becomes of
    such a pair is a matter of floating-point conditioning (a criterion made of near-ties alone has a range of a few ulps)"""
    if abs(a - b) <= math.ldexp(max(abs(a), abs(b)), -40):
        return True
    x = a
    for _ in range(4):  # next to 0 the relative test is empty (0.0 and the smallest subnormal): count the doubles in between
        x = math.nextafter(x, b)
        if x == b:
            return True
    return False


def manufactured(dm, pipe, merged):
    """of the (criterion, a, b) whose strict preference became an equality, those that rounding does NOT excuse: the EXACT
    transformed values of the two alternatives differ by more than the rounding margins of the two outputs together
    (2 x 1e-9 x scale, scale = max(1, largest exact magnitude of the transformed criterion)) although the two inputs are not
    near-ties.  Returns [(j, a, b, exact_a, exact_b, scale)]"""
    A = dm["matrix"]
    cand = [(j, a, b) for j, a, b in merged if not near_tie(A[a][j], A[b][j])]
    if not cand:
        return []
    try:
        E = exact_matrix(dm, pipe)
    except ZeroDivisionError:  # the exact pipeline leaves the domain where the floating-point one does not (1 / exact 0)
        return []
    out = []
    for j, a, b in cand:
        scale = max([Fraction(1)] + [abs(r[j]) for r in E])
        if abs(E[a][j] - E[b][j]) > 2 * MARGIN * scale:
            out.append((j, a, b, E[a][j], E[b][j], scale))
    return out


# ----------------------------------------------------------------------------- the property


def sign(x):
    return (x > 0) - (x < 0)


def compare_signs(A, o, Y, o2):
    """per criterion and pair: oriented sign before vs after.
    returns (reversals, born, merged) as lists of (j, a, b)"""
    m, n = len(A), len(o)
    rev, born, merged = [], [], []
    for j in range(n):
        for a in range(m):
            for b in range(a + 1, m):
                s0 = sign(A[a][j] - A[b][j]) * o[j]
                s1 = sign(Y[a][j] - Y[b][j]) * o2[j]
                if s0 == s1:
                    continue
                if s0 == 0:
                    born.append((j, a, b))
                elif s1 == 0:
                    merged.append((j, a, b))
                else:
                    rev.append((j, a, b))
    return rev, born, merged


def describe(pipe, names=None):
    d = " -> ".join(f"{s['name']}({s['target']}{', ' + str(s['params']) if s['params'] else ''})" for s in pipe)
    if names == "mkpipe":
        return "mkpipe[" + d + "]"
    if names is not None:
        return f"SKCPipeline(names={names})[" + d + "]"
    return d


def order_breaks(x, y):
    """x, y: the objective-oriented values of one criterion before / after (numpy vectors).  The order of ALL pairs is the same
    iff it is for the pairs that are neighbours when the alternatives are sorted by x: returns the first such pair that breaks it,
    as (kind, a, b) with kind reversed / born / merged, or None"""
    order = np.argsort(x, kind="stable")
    xs, ys = x[order], y[order]
    s0, s1 = np.sign(xs[1:] - xs[:-1]), np.sign(ys[1:] - ys[:-1])
    bad = np.nonzero(s0 != s1)[0]
    if not len(bad):
        return None
    # a reversal first, if there is one
    i = next((int(t) for t in bad if s0[t] != 0 and s1[t] != 0), int(bad[0]))
    kind = "born" if s0[i] == 0 else "merged" if s1[i] == 0 else "reversed"
    return kind, int(order[i]), int(order[i + 1])


def judge_long(case, obs, replies):
    """a very long matrix (exactly representable data): the order of every pair of alternatives on every criterion (through the
    sorted order, see order_breaks), the dominance tables among the probed alternatives before vs after, the pipeline object vs
    its steps by hand; the model on the sub-matrix of the probed and witness rows"""
    out = []
    dm, pipe, names, probe = case["dm"], case["pipelines"][0], case["names"][0], case["probe"]
    run = obs["runs"][0]
    label = describe(pipe, names) + " [%d alternatives]" % len(dm["matrix"])

    def prop(what, expected=None, observed=None):
        out.append({"kind": "property", "what": what, "expected": expected, "observed": observed})

    def corr(what, expected=None, observed=None):
        out.append({"kind": "correspondence", "what": what, "expected": expected, "observed": observed})

    if "err" in run:
        prop(f"{label}: raised {run['err']} inside its domain: {run.get('msg')}", "a transformed matrix", run["err"])
        return out
    if not run["finite"]:
        prop(f"{label}: non-finite values in the output inside its domain", "finite", "non-finite cells")
        return out
    A, o = np.array(dm["matrix"], dtype=float), dm["objectives"]
    Y, o2 = np.array(run["matrix"], dtype=float), run["objectives"]
    if Y.shape != A.shape or not run["alternatives_kept"]:
        prop(f"{label}: the output does not hold the alternatives of the input", list(A.shape), list(Y.shape))
        return out
    for j in range(len(o)):
        br = order_breaks(A[:, j] * o[j], Y[:, j] * o2[j])
        if br:
            kind, a, b = br
            what = {"reversed": "preference between two alternatives REVERSED on a criterion",
                    "born": "two alternatives equal on a criterion became strictly ordered",
                    "merged": "a strict preference became an equality on exactly representable data"}[kind]
            prop(f"{label}: {what}", {"criterion": j, "pair": [a, b], "before": [A[a, j], A[b, j]], "objective_before": o[j]},
                 {"after": [Y[a, j], Y[b, j]], "objective_after": o2[j]})
            break
    p = len(probe)
    for k, strict in enumerate((False, True)):
        before, after = obs["before"][k], run["after"][k]
        diff = [(a, b) for a in range(p) for b in range(p) if before[a][b] != after[a][b]]
        if diff:
            a, b = diff[0]
            ra, rb = probe[a], probe[b]
            prop(f"{label}: dominance(strict={strict}) differs before and after",
                 {"pair": [ra, rb], "before": before[a][b], "rows_before": [dm["matrix"][ra], dm["matrix"][rb]], "objectives_before": o},
                 {"after": after[a][b], "rows_after": [run["matrix"][ra], run["matrix"][rb]], "objectives_after": o2})
            break
    ref = run.get("by_hand")
    if ref is not None:
        if "err" in ref:
            corr(f"{label}: the steps applied by hand raise {ref['err']}, the pipeline object answers", ref["err"], "a transformed matrix")
        else:
            for part in ("matrix", "weights", "objectives"):
                if ref[part] != run[part]:
                    corr(f"{label}: {part} out of the pipeline object differs from the steps applied one after the other")
                    break
    if not replies:
        return out
    rep = replies[0]
    if "err" in rep:
        corr(f"{label}: model refuses, implementation accepts", rep["err"], "accepted")
        return out
    rows = long_subset(case)
    mM = [[float(C.frac(x)) if x is not None else float("nan") for x in r] for r in rep["M"]]
    mo = [1 if x == "max" else -1 for x in rep["O"]]
    if mo != o2:
        corr(f"{label}: objectives after, model vs implementation", mo, o2)
        return out
    for t, i in enumerate(rows):
        for j in range(len(o)):
            scale = max(1.0, float(np.max(np.abs(Y[:, j]))))
            if not abs(mM[t][j] - Y[i, j]) <= 1e-9 * scale:
                corr(f"{label}: transformed cell, model (on the sub-matrix of the probed rows and of the rows holding the minimum, "
                     "the maximum and the zeros of every criterion) vs implementation (on the whole matrix)",
                     {"row": i, "criterion": j, "model": mM[t][j]}, float(Y[i, j]))
                return out
    for k, strict in enumerate((False, True)):
        mt, it = rep["dom"][k], run["after"][k]
        diff = [(a, b) for a in range(p) for b in range(p) if mt[a][b] != it[a][b]]
        if diff:
            corr(f"{label}: dominance(strict={strict}) after among the probed alternatives, model vs implementation",
                 {"pair": [probe[diff[0][0]], probe[diff[0][1]]]}, it)
            break
    return out


def judge(case, obs, replies):
    if case.get("kind") == "long":
        return judge_long(case, obs, replies)
    out = []
    dms = case_dms(case)
    exact_family = case["dm"]["family"] == "dyadic"
    all_names = case.get("names") or [None] * len(case["pipelines"])
    before_all = obs.get("before_all") or [obs["before"]]

    def prop(what, expected=None, observed=None):
        out.append({"kind": "property", "what": what, "expected": expected, "observed": observed})

    def corr(what, expected=None, observed=None):
        out.append({"kind": "correspondence", "what": what, "expected": expected, "observed": observed})

    history = case.get("history") or []
    if obs.get("history_err"):
        corr("the what-if copy dm.copy(<replacement>) made before the pipeline raised " + obs["history_err"]["err"] + ": "
             + str(obs["history_err"].get("msg")), "a copy", obs["history_err"]["err"])
    for run, rep in zip(obs["runs"], replies):
        pipe, names, which = case["pipelines"][run.get("pipe", 0)], all_names[run.get("pipe", 0)], run.get("which", 0)
        # every output is judged against ITS OWN input
        A, o = dms[which]["matrix"], dms[which]["objectives"]
        m = len(A)
        label = describe(pipe, names)
        if which < len(history) and history[which]:
            label += (" [applied to a decision matrix AFTER dm.copy(%s=...) was called on it (the copy thrown away); judged against "
                      "the matrix's own objectives and values]" % "=..., ".join(x for x in ("objectives", "matrix") if history[which].get(x) is not None))
        if which:
            label += " [second decision matrix through the same transformer objects: same criteria labels, other objectives]"
        if "err" in run:
            prop(f"{label}: raised {run['err']} inside its domain: {run.get('msg')}", "a transformed matrix", run["err"])
            continue
        if not run["finite"]:
            prop(f"{label}: non-finite values in the output inside its domain", "finite", run["matrix"])
            continue
        Y, o2 = run["matrix"], run["objectives"]
        rev, born, merged = compare_signs(A, o, Y, o2)
        if rev:
            j, a, b = rev[0]
            prop(f"{label}: preference between two alternatives REVERSED on a criterion",
                 {"criterion": j, "pair": [a, b], "before": [A[a][j], A[b][j]], "objective_before": o[j]},
                 {"after": [Y[a][j], Y[b][j]], "objective_after": o2[j]})
        if born:
            j, a, b = born[0]
            prop(f"{label}: two alternatives equal on a criterion became strictly ordered",
                 {"criterion": j, "pair": [a, b], "before": [A[a][j], A[b][j]]}, {"after": [Y[a][j], Y[b][j]]})
        if merged and exact_family:
            j, a, b = merged[0]
            prop(f"{label}: a strict preference became an equality on exactly representable data",
                 {"criterion": j, "pair": [a, b], "before": [A[a][j], A[b][j]]}, {"after": [Y[a][j], Y[b][j]]})
        if merged and not exact_family:
            made = manufactured(dms[which], pipe, merged)
            if made:
                j, a, b, ea, eb, sc = made[0]
                prop(f"{label}: a strict preference became an EQUALITY although the exact transformed values differ by more than the "
                     "rounding margin (a tie was manufactured)",
                     {"criterion": j, "pair": [a, b], "before": [A[a][j], A[b][j]], "exact_after": [float(ea), float(eb)],
                      "margin": float(2 * MARGIN * sc)}, {"after": [Y[a][j], Y[b][j]]})
        skip = {(a, b) for _, a, b in merged} | {(b, a) for _, a, b in merged}
        for k, strict in enumerate((False, True)):
            before, after = before_all[which][k], run["after"][k]
            diff = [(a, b) for a in range(m) for b in range(m) if before[a][b] != after[a][b] and (a, b) not in skip]
            if diff:
                a, b = diff[0]
                prop(f"{label}: dominance(strict={strict}) differs before and after",
                     {"pair": [a, b], "before": before[a][b], "rows_before": [A[a], A[b]], "objectives_before": o},
                     {"after": after[a][b], "rows_after": [Y[a], Y[b]], "objectives_after": o2})
                break
        # a pipeline object is its steps applied in order (what the model computes as well): same floating-point operations, so the
        # two outputs are compared for equality
        ref = run.get("by_hand")
        if ref is not None:
            if "err" in ref:
                corr(f"{label}: the steps applied by hand raise {ref['err']}, the pipeline object answers", ref["err"], "a transformed matrix")
            else:
                for part in ("matrix", "weights", "objectives"):
                    if ref[part] != run[part]:
                        corr(f"{label}: {part} out of the pipeline object differs from the steps applied one after the other", ref[part], run[part])
                        break
        # correspondence: model of the pipeline, then the model of the dominance accessor
        if "err" in rep:
            corr(f"{label}: model refuses, implementation accepts", rep["err"], "accepted")
            continue
        mM = [[(float(C.frac(x)) if "/" in x else C.unfbits(x)) if x is not None else float("nan") for x in r] for r in rep["M"]]
        mo = [1 if x == "max" else -1 for x in rep["O"]]
        if mo != o2:
            corr(f"{label}: objectives after, model vs implementation", mo, o2)
            continue
        _, _, mmerged = compare_signs(A, o, mM, mo)
        mskip = skip | {(a, b) for _, a, b in mmerged} | {(b, a) for _, a, b in mmerged}
        for k, strict in enumerate((False, True)):
            mt, it = rep["dom"][k], run["after"][k]
            diff = [(a, b) for a in range(m) for b in range(m) if mt[a][b] != it[a][b] and (a, b) not in mskip]
            if diff:
                corr(f"{label}: dominance(strict={strict}) after, model vs implementation", {"pair": diff[0], "model": mt}, it)
                break
    return out


def nontrivial(case, obs):
    return len(case["dm"]["matrix"]) >= 2


def tags(case, obs):
    dm = case["dm"]
    t = ["kind:" + case["kind"], "family:" + dm["family"]]
    dt = dm.get("dtypes") or ["float"]
    t.append("dtypes:" + ("int" if all(x == "int" for x in dt) else "float" if all(x == "float" for x in dt) else "mixed"))
    o = dm["objectives"]
    t.append("objs:" + ("max" if all(x == 1 for x in o) else "min" if all(x == -1 for x in o) else "mixed"))
    if case["kind"] == "long":
        m = len(dm["matrix"])
        t += ["len=%d" % len(case["pipelines"][0]), "alternatives:" + ("4097-6000" if m <= 6000 else "6001-9000"),
              "pipeline:" + ">".join(s["name"] for s in case["pipelines"][0])]
        if any(any(r) for r in obs["before"][1]):
            t.append("has-strict-dominance")
        return t
    if case["kind"] != "exh":
        names = (case.get("names") or [None])[0]
        k = len(case["pipelines"][0])
        t.append("built:" + ("by-hand" if names is None else "mkpipe" if names == "mkpipe" else
                             "SKCPipeline-unique-names" if len(set(names)) == len(names) else
                             "SKCPipeline-repeated-transformer-name" if len(set(names[:k])) < k else "SKCPipeline-repeated-name"))
        t.append("matrices-per-object=%d" % len(case_dms(case)))
        if case.get("second"):
            t.append("second:" + ("same-cells" if case["second"]["matrix"] == dm["matrix"] else "other-cells"))
        t.append("len=%d" % k)
        for w, h in enumerate(case.get("history") or []):
            if h:
                t.append("history:%s-dm:copy(%s)" % ("first" if w == 0 else "second", h["mode"]))
        if case.get("history"):
            t.append("history:" + ("pipeline-reads-objectives" if any(s["name"] in INVERTERS for s in case["pipelines"][0]) else "no-inverter-step"))
        for s in case["pipelines"][0]:
            t.append("step:" + s["name"])
            t.append("target:" + s["target"])
        dms = case_dms(case)
        for run in obs.get("runs", []):
            if "matrix" in run and run.get("finite"):
                d = dms[run.get("which", 0)]
                rev, born, merged = compare_signs(d["matrix"], d["objectives"], run["matrix"], run["objectives"])
                if merged:
                    t.append("merged-by-rounding")
                    t.append("merged:" + ("all-near-ties-on-input" if all(near_tie(d["matrix"][a][j], d["matrix"][b][j])
                                                                          for j, a, b in merged) else "some-pair-not-a-near-tie-on-input"))
        if any(any(r) for r in obs["before"][0]):
            t.append("has-dominance")
        if any(any(r) for r in obs["before"][1]):
            t.append("has-strict-dominance")
    return t
