"""C19 — the rank-reversal test worsens exactly one sub-optimal alternative, in bounds."""
from __future__ import annotations

import contextlib
import itertools
import math
import os
import pickle
import select
import signal
import time
from fractions import Fraction

import numpy as np

import common as C
import gen as G
import methods as M

PID = "C19"
RULE = (
    "cases: (float decision matrix with 3-8 alternatives x 2-5 criteria, dyadic grid or arbitrary doubles, objectives mixed / "
    "all max / all min, column ties; decision maker = recording wrapper around TOPSIS (5 metrics), RatioMOORA, "
    "ReferencePointMOORA, ELECTRE2 (heavy ties), WSM and InvertMinimize+SumScaler+WSM (positive shifted data), a user-written "
    "'rank by the first criterion' maker (ties), or a pipeline FilterGE/FilterLE + maker that drops alternatives, "
    "allow_missing_alternatives on and off; repeat 1-3; last_diff_strategy 'median' / 'mean' / callables max, min, half-mean; "
    "random_state: a python int, numpy.int64 / numpy.int32 of it, a numpy Generator built from it, or None; the seed is drawn "
    "half from the boundary pool 0, 1, 2, 42, 2^31-1, 2^31, 2^32-1, 2^32, 2^63-1 (0 three times as likely) and half from "
    "[0, 2^32); the first cases of every run are pinned to seed 0 as int / numpy.int64 / Generator and to None).  A second small stream has duplicated alternatives or strategies that leave a non-best "
    "alternative no room (refusal expected since F8; run in a child process under a 20 s alarm).  Every case is run by two checkers "
    "built with equal seeds, the first of which evaluates twice; all three runs must apply identical noises and matrices "
    "(not demanded for random_state=None, where the draws are reproduced from a clone of the checker's own generator).  A third stream, "
    "a fixed share of every run (24 quick / 240 thorough, the kinds below in rotation, allow_missing_alternatives alternating), has "
    "alternative labels that are whole numbers >= 1000 (never a position): a python list of ints, numpy int64 / int32 arrays, an "
    "object array of python ints, bases 1000 / 2000 / 10^6 / 2^31-100 / 2^53+1 / 2^62 (same number of digits within a case), or a "
    "python list mixing ints (python / numpy) and strings (which the constructor turns into strings); every label the experiment "
    "reports (names 'M.<alt>[_k]', method strings, e_.rrt1.mutated, the alternatives and missing alternatives of every ranking, "
    "the labels of every mutant matrix) is compared type-preservingly (G.lab: 101 is not 101.0 and not '101') with the label the "
    "decision matrix holds for the alternative whose row really changed.  A fourth stream, a fixed share of every run (16 quick / "
    "160 thorough), is a HISTORY of one checker: after the matrix of the case (evaluated twice) the same checker instance evaluates "
    "a different matrix with the same alternative and criteria labels, objectives and weights and the same reference ranking but "
    "other values with smaller gaps between consecutively ranked alternatives (every cell times 2^-k, k = 1..4, exact, for the "
    "scale-invariant makers; for the 'rank by the first criterion' maker, one case in four, the first column contracted towards "
    "its minimum and every other column permuted among the alternatives and scaled), and in half of the cases the first matrix "
    "once more; every clause of the property (one row, worsening direction, bounds = gaps of the matrix OF THAT CALL, recorded "
    "noise, names, count, refusal) is judged for each call against the matrix of that call, the model is asked about each call, "
    "and each later call must give the experiments of a fresh checker with an equal seed on that matrix.  Non-trivial: at least two mutants were evaluated or the call was (rightly) refused.  Distinct by case hash."
)
ASSUMPTIONS = [
    "Generator.uniform(0, b) == b * Generator.random() draw for draw: the draws are reproduced from numpy.random.default_rng(seed) "
    "and fed to the model (validated here: model noise vs recorded noise within 1e-12*scale on every case; evaluate() draws from "
    "a deep copy of the constructor's generator, so every call starts from the state numpy.random.default_rng(seed) gives)",
    "Series.sort_values() is not stable: the order among alternatives tied in the original ranking is taken from the observed "
    "run (order oracle); for a refused run with ties any admissible order that explains the observation is accepted",
    "decision makers that raise on a mutant (outside their own domain) end the case: skipped and counted",
]
PARTIAL = (
    "IEEE rounding is not modelled: gaps, gap*u and row+noise are exact rationals in the model and are compared with the "
    "implementation within 1e-12*scale; the identity 'stored noise = applied change' is checked on the implementation in "
    "float arithmetic (old + noise == new, bit for bit)"
)
EXHAUSTIVE = False
ALARM_S = 20
STRATEGIES = ["median", "mean", "max", "min", "halfmean", "meanminus1", "negmean"]

# --------------------------------------------------------------------------- generators

SEED_POOL = [0, 0, 0, 1, 2, 42, 2 ** 31 - 1, 2 ** 31, 2 ** 32 - 1, 2 ** 32, 2 ** 63 - 1]
SEED_KINDS = ["int", "int", "int", "npint", "npint", "generator", "generator", "none"]


def _seed(rng):
    """(seed, kind): kind 'int' python int | 'npint' numpy.int64 | 'npint32' | 'generator' | 'none' (seed None)"""
    kind = rng.choice(SEED_KINDS)
    if kind == "none":
        return None, kind
    seed = rng.choice(SEED_POOL) if rng.random() < 0.5 else rng.randrange(2 ** 32)
    if kind == "npint" and seed < 2 ** 31 and rng.random() < 0.3:
        kind = "npint32"
    return seed, kind


def _random_state_arg(case):
    seed, kind = case["seed"], case["seed_kind"]
    if kind == "none":
        return None
    if kind == "npint":
        return np.int64(seed)
    if kind == "npint32":
        return np.int32(seed)
    if kind == "generator":
        return np.random.default_rng(seed)
    return seed


MAKERS = ["TOPSIS", "TOPSIS", "RatioMOORA", "RefPointMOORA", "ELECTRE2", "WSM", "WSMpipe", "FirstCrit", "FirstCrit"]


def _maker_spec(rng, objs):
    name = rng.choice(MAKERS)
    if name == "TOPSIS":
        return {"name": "TOPSIS", "metric": rng.choice(M.TOPSIS_METRICS)}
    if name == "ELECTRE2":
        return M.random_spec(rng, ["ELECTRE2"])
    return {"name": name}


def _matrix(rng, n, k, family, shifted, ties):
    def val():
        if family == "dyadic":
            return (40 if shifted else 0) + rng.randint(1, 40) / 8
        v = math.ldexp(rng.uniform(0.5, 1.0), rng.randint(-3, 6))
        return 64.0 + v if shifted else v

    rows = [[val() for _ in range(k)] for _ in range(n)]
    for j in range(k):
        for i in range(1, n):
            if rng.random() < ties:
                rows[i][j] = rows[rng.randrange(i)][j]
    # the main stream has no duplicated alternatives
    for i in range(n):
        while any(rows[i] == rows[p] for p in range(i)):
            rows[i][rng.randrange(k)] = val()
    return rows


def _case(rng, zero=False):
    family = rng.choice(["dyadic", "dyadic", "float"])
    n = rng.randint(3, 8)
    k = rng.randint(2, 5)
    mix = rng.choice(["mixed", "mixed", "mixed", "max", "min"])
    objs = G.objectives(rng, k, mix)
    if mix == "mixed" and len(set(objs)) == 1:
        objs[rng.randrange(k)] *= -1
    spec = _maker_spec(rng, objs)
    if spec["name"] == "WSM":
        objs = [1] * k
    shifted = spec["name"] in ("WSM", "WSMpipe")
    rows = _matrix(rng, n, k, family, shifted, rng.choice([0.0, 0.2, 0.5]))
    crits = G.labels(rng, G.LABEL_POOL_CRIT, k)
    strategy = rng.choice(["median", "median", "mean", "mean", "max", "min", "halfmean"])
    dmaker = spec
    if rng.random() < 0.35 and spec["name"] not in ("WSM", "WSMpipe"):
        j = rng.randrange(k)
        col = sorted(r[j] for r in rows)
        keep = rng.randint(2, n)  # alternatives kept in the original matrix
        if objs[j] == 1:  # keep the `keep` largest: a worsened (lowered) alternative may drop out
            cut = col[n - keep]
            thr = cut if keep == n else (col[n - keep - 1] + cut) / 2 if rng.random() < 0.5 else cut
            flt = {"cls": "GE", "crit": crits[j], "thr": thr}
        else:
            cut = col[keep - 1]
            thr = cut if keep == n else (col[keep] + cut) / 2 if rng.random() < 0.5 else cut
            flt = {"cls": "LE", "crit": crits[j], "thr": thr}
        dmaker = {"name": "pipe", "filter": flt, "inner": spec}
    if zero:
        how = rng.choice(["dup", "dup", "dup2", "zero-strategy", "negative-strategy"])
        if how == "negative-strategy":  # a callable whose value is negative on some / all criteria
            strategy = rng.choice(["meanminus1", "meanminus1", "negmean"])
        elif how in ("dup", "dup2"):
            i, p = rng.sample(range(n), 2)
            rows[i] = list(rows[p])
            if how == "dup2" and n >= 4:
                q = rng.choice([x for x in range(n) if x not in (i, p)])
                rows[q] = list(rows[p])
        else:
            strategy = "min"
            for j in range(k):  # every column has a tie between two alternatives that will often be neighbours
                i, p = rng.sample(range(n), 2)
                rows[i][j] = rows[p][j]
    seed, seed_kind = _seed(rng)
    return {
        "kind": "zero" if zero else "rrt",
        "dm": {"matrix": rows, "objectives": objs, "weights": G.weights(rng, k, family),
               "alternatives": G.labels(rng, G.LABEL_POOL_ALT, n), "criteria": crits, "family": family},
        "dmaker": dmaker,
        "repeat": rng.randint(1, 3),
        "allow": rng.random() < 0.5,
        "strategy": strategy,
        "seed": seed,
        "seed_kind": seed_kind,
    }


LABEL_KINDS = ["pyint", "npint64", "npint32", "objint", "mixed", "pyint", "npint64", "mixed-np"]
LABEL_BASES = [1000, 2000, 10 ** 6, 2 ** 31 - 100, 2 ** 53 + 1, 2 ** 62]


def _relabel(rng, case, kind):
    """whole-number alternative labels (>= 1000: never a position; one number of digits per case).  `alternatives` keeps the
    str() of every label (what names and method strings are made of, and what the model works on); `alt_labels` says what is
    handed to mkdm: kind 'pyint' python list of ints | 'npint64' / 'npint32' numpy array | 'objint' object array of python
    ints | 'mixed' python list of ints and strings | 'mixed-np' the same with numpy.int64 members"""
    d = case["dm"]
    n = len(d["alternatives"])
    base = rng.choice(LABEL_BASES[:4] if kind == "npint32" else LABEL_BASES)
    values = [base + i for i in rng.sample(range(3 * n), n)]
    if kind in ("mixed", "mixed-np"):
        strs = rng.sample(range(n), rng.randint(1, n - 1))
        for i in strs:
            values[i] = d["alternatives"][i]
    d["alt_labels"] = {"kind": kind, "values": values}
    d["alternatives"] = [str(v) for v in values]
    return case


def _alt_objects(d):
    """the alternative labels as they are handed to mkdm"""
    spec = d.get("alt_labels")
    if not spec:
        return list(d["alternatives"])
    kind, values = spec["kind"], spec["values"]
    if kind == "npint64":
        return np.array(values, dtype=np.int64)
    if kind == "npint32":
        return np.array(values, dtype=np.int32)
    if kind == "objint":
        out = np.empty(len(values), dtype=object)
        out[:] = [int(v) for v in values]
        return out
    if kind == "mixed-np":
        return [v if isinstance(v, str) else np.int64(v) for v in values]
    return list(values)


def _mkdm(d):
    """the DecisionMatrix of the case, with the labels of `alt_labels` when present"""
    spec = d.get("alt_labels")
    if not spec:
        return G.mkdm(d)
    alts = _alt_objects(d)
    if spec["kind"] in ("pyint", "npint64", "npint32"):
        # through the shared builder (a third of the cases are selected out of a reordered matrix): list of typed scalars
        return G.mkdm(dict(d, alternatives=list(alts)))
    import skcriteria as skc

    return skc.mkdm(np.array(d["matrix"], dtype=float), G.objective_aliases(d), weights=np.array(d["weights"], dtype=float),
                    alternatives=alts, criteria=list(d["criteria"]))


def _rows_distinct(rows):
    return len({tuple(r) for r in rows}) == len(rows)


def _history(rng, i):
    """one checker, several matrices: the case's matrix, then (`then`) a matrix with the same labels / objectives / weights and
    the same reference ranking but other values and smaller gaps, then (every other case) the first matrix again"""
    fresh = i % 4 == 3
    c = _case(rng)
    if c["dmaker"]["name"] == "pipe":  # the filter's threshold belongs to the first matrix only
        c["dmaker"] = c["dmaker"]["inner"]
    if fresh and c["dmaker"]["name"] in ("WSM", "WSMpipe"):
        fresh = False
    if fresh:
        c["dmaker"] = {"name": "FirstCrit"}
    rows = c["dm"]["matrix"]
    n, k = len(rows), len(rows[0])
    e = rng.randint(1, 4)
    f = math.ldexp(1.0, -e)
    new, how = None, "scale"
    if fresh:
        lo = min(r[0] for r in rows)
        for _ in range(8):
            perms = [None] + [rng.sample(range(n), n) for _ in range(1, k)]
            cand = [[lo + (rows[a][0] - lo) * f] + [rows[perms[j][a]][j] * f for j in range(1, k)] for a in range(n)]
            if _rows_distinct(cand):
                new, how = cand, "fresh"
                break
    if new is None:
        new = [[x * f for x in r] for r in rows]
    then = [{"how": f"{how}:2^-{e}", "matrix": new}]
    if i % 2 == 0:
        then.append({"how": "first-matrix-again", "matrix": [list(r) for r in rows]})
    c["kind"] = "history"
    c["then"] = then
    return c


def _case_at(case, t):
    """the case as it stands at call t + 2 of the history: same checker, the t-th later matrix"""
    c = {k: v for k, v in case.items() if k != "then"}
    c["dm"] = dict(case["dm"], matrix=case["then"][t]["matrix"])
    return c


def gen(ctx):
    rng = ctx.rng
    n_main, n_zero, n_lab, n_hist = ctx.n(110, 3000), ctx.n(10, 100), ctx.n(24, 240), ctx.n(16, 160)
    cases = [_case(rng) for _ in range(n_main)]
    # falsy / boundary forms of the seed are present in every run, whatever the stream drew
    pinned = [(0, "int"), (0, "npint"), (0, "generator"), (None, "none"), (0, "npint32"), (1, "int"), (2 ** 32 - 1, "npint")]
    for c, (seed, kind) in zip(cases, pinned):
        c["seed"], c["seed_kind"] = seed, kind
    # the refusal stream is spread over the list (each of its cases runs in a child process)
    step = max(1, n_main // n_zero)
    for i in range(n_zero):
        cases.insert(min(len(cases), i * (step + 1)), _case(rng, zero=True))
    # whole-number / mixed alternative labels: a fixed share of every run, every kind in rotation (drawn after everything else,
    # so the streams above are what they were)
    for i in range(n_lab):
        c = _relabel(rng, _case(rng), LABEL_KINDS[i % len(LABEL_KINDS)])
        c["allow"] = (i // len(LABEL_KINDS)) % 2 == 0
        cases.append(c)
    # histories of one checker over several matrices (drawn last: the streams above are what they were)
    for i in range(n_hist):
        cases.append(_history(rng, i))
    return cases


search_gen = gen

# --------------------------------------------------------------------------- the real code


class _Hang(BaseException):
    pass


@contextlib.contextmanager
def _alarm(seconds):
    """run the body under SIGALRM; whatever alarm / handler was pending is restored afterwards"""

    def onalarm(*a):
        raise _Hang()

    t0 = time.time()
    old_handler = signal.signal(signal.SIGALRM, onalarm)
    old_left = signal.alarm(seconds)
    try:
        yield
    finally:
        signal.alarm(0)
        signal.signal(signal.SIGALRM, old_handler)
        if old_left:
            signal.alarm(max(1, int(old_left - (time.time() - t0))))


def _strategy_arg(name):
    if name in ("median", "mean"):
        return name
    return {"max": lambda s: s.max(), "min": np.min, "halfmean": lambda s: 0.5 * s.mean(),
            "meanminus1": lambda s: s.mean() - 1.0, "negmean": lambda s: -s.mean()}[name]


def _build_maker(spec):
    from skcriteria.agg import RankResult
    from skcriteria.utils import rank as skrank

    name = spec["name"]
    if name == "pipe":
        from skcriteria.pipeline import mkpipe
        from skcriteria.preprocessing import filters

        f = spec["filter"]
        cls = {"GE": filters.FilterGE, "LE": filters.FilterLE}[f["cls"]]
        return mkpipe(cls({f["crit"]: f["thr"]}), _build_maker(spec["inner"]))
    if name == "WSMpipe":
        from skcriteria.pipeline import mkpipe
        from skcriteria.preprocessing.invert_objectives import InvertMinimize
        from skcriteria.preprocessing.scalers import SumScaler

        return mkpipe(InvertMinimize(), SumScaler(target="both"), M.build({"name": "WSM"}))
    if name == "FirstCrit":

        class FirstCrit:
            """a user-written decision maker: dense rank of the first criterion under its objective"""

            def evaluate(self, dm):
                col = dm.matrix.to_numpy()[:, 0]
                rev = int(dm.iobjectives.iloc[0]) == 1
                return RankResult("FirstCrit", dm.alternatives, skrank.rank_values(col, reverse=rev), {})

            def __repr__(self):
                return "<FirstCrit>"

        return FirstCrit()
    return M.build(spec)


class _Recorder:
    """a decision maker that records `dm.to_dict()` of every matrix it is asked to rank and what the
    wrapped decision maker answered, and delegates"""

    def __init__(self, inner):
        self.inner, self.seen, self.answers, self.inner_error = inner, [], [], None

    def evaluate(self, dm):
        d = dm.to_dict()
        self.seen.append({
            "matrix": np.array(d["matrix"], dtype=float).tolist(),
            "objectives": [int(x) for x in d["objectives"]],
            "weights": [float(x) for x in d["weights"]],
            "alternatives": [str(a) for a in d["alternatives"]],
            "alternatives_lab": [G.lab(a) for a in d["alternatives"]],
            "criteria": [str(c) for c in d["criteria"]],
            "dtypes": [str(t) for t in d["dtypes"]],
        })
        try:
            res = self.inner.evaluate(dm)
        except _Hang:
            raise
        except Exception as e:
            self.inner_error = f"{type(e).__name__}: {e}"[:200]
            raise
        self.answers.append({"method": str(res.method), "alts": [str(a) for a in res.alternatives],
                             "alts_lab": [G.lab(a) for a in res.alternatives], "values": [int(v) for v in res.values]})
        return res

    def __repr__(self):
        return f"<Recorder {self.inner!r}>"


def _n_draws(case):
    k = len(case["dm"]["criteria"])
    n = len(case["dm"]["alternatives"])
    return (n - 1) * case["repeat"] * k + 16 * k


def _ranks_out(rc):
    ranks = []
    for name, r in rc.ranks:
        info = r.e_.rrt1
        noise = info.noise
        ranks.append({
            "name": name,
            "method": str(r.method),
            "alts": [str(a) for a in r.alternatives],
            "values": [int(v) for v in r.values],
            "iteration": None if info.iteration is None else int(info.iteration),
            "mutated": None if info.mutated is None else str(info.mutated),
            "mutated_lab": None if info.mutated is None else G.lab(info.mutated),
            "alts_lab": [G.lab(a) for a in r.alternatives],
            "missing_lab": [G.lab(a) for a in info.missing_alternatives],
            "noise": None if noise is None else [float(x) for x in noise.to_numpy()],
            "noise_index": None if noise is None else [str(c) for c in noise.index],
            "missing": [str(a) for a in info.missing_alternatives],
        })
    return ranks


def _original(dm):
    o = {k: (np.asarray(v, dtype=float).tolist() if k in ("matrix", "weights") else
             [int(x) for x in v] if k == "objectives" else [str(x) for x in v])
         for k, v in dm.to_dict().items()}
    o["alternatives_lab"] = [G.lab(x) for x in dm.alternatives]
    return o


def _later_call(chk, rec, dm):
    """one more evaluate() of a checker that has already been used, on `dm`: a run dict of that call alone"""
    first_seen, first_ans = len(rec.seen), len(rec.answers)
    rec.inner_error = None
    out = {}
    try:
        with _alarm(ALARM_S):
            rc = chk.evaluate(dm)
    except _Hang:
        out["outcome"] = "hang"
    except Exception as e:
        out["outcome"] = "dmaker-error" if rec.inner_error else G.err_name(e)
        out["msg"] = str(e)[:200]
    else:
        out["outcome"] = "ok"
        out["ranks"] = _ranks_out(rc)
    out["seen"] = rec.seen[first_seen:]
    out["answers"] = rec.answers[first_ans:]
    out["original"] = _original(dm)
    return out


def _one_run(case, again=False, then=False):
    """one checker built from the case; with `again` the same checker evaluates the matrix a second time
    (out["again"]: outcome, matrices seen and rankings of that second evaluation); with `then` the same checker goes on
    to evaluate the matrices of case["then"] (out["then"]: one run dict per call)"""
    import copy

    from skcriteria.cmp import RankInvariantChecker

    dm = _mkdm(case["dm"])
    rec = _Recorder(_build_maker(case["dmaker"]))
    seed = _random_state_arg(case)
    out = {}
    chk = None
    try:
        with _alarm(ALARM_S):
            chk = RankInvariantChecker(rec, repeat=case["repeat"], allow_missing_alternatives=case["allow"],
                                       last_diff_strategy=_strategy_arg(case["strategy"]), random_state=seed)
            # the draws this checker is going to make, from a clone of its own generator
            out["clone_draws"] = [float(u) for u in copy.deepcopy(chk.random_state).random(_n_draws(case))]
            rc = chk.evaluate(dm)
    except _Hang:
        out["outcome"] = "hang"
    except Exception as e:
        out["outcome"] = "dmaker-error" if rec.inner_error else G.err_name(e)
        out["msg"] = str(e)[:200]
    else:
        out["outcome"] = "ok"
        out["ranks"] = _ranks_out(rc)
    out["seen"] = list(rec.seen)
    out["answers"] = list(rec.answers)
    if again and chk is not None and out["outcome"] in ("ok", "ValueError"):
        first = len(rec.seen)
        rec.inner_error = None
        ag = {}
        try:
            with _alarm(ALARM_S):
                rc2 = chk.evaluate(dm)
        except _Hang:
            ag["outcome"] = "hang"
        except Exception as e:
            ag["outcome"] = "dmaker-error" if rec.inner_error else G.err_name(e)
        else:
            ag["outcome"] = "ok"
            ag["ranks"] = _ranks_out(rc2)
        ag["seen"] = rec.seen[first:]
        out["again"] = ag
    if then and chk is not None and out["outcome"] in ("ok", "ValueError"):
        out["then"] = []
        for t in range(len(case["then"])):
            run = _later_call(chk, rec, _mkdm(_case_at(case, t)["dm"]))
            run["clone_draws"] = out.get("clone_draws")
            out["then"].append(run)
            if run["outcome"] == "hang":
                break
    out["original"] = _original(dm)
    return out


@contextlib.contextmanager
def _silence():
    """the deprecation notices of ELECTRE2 are emitted with their own 'once' filter: drop them at the sink"""
    import warnings

    old = warnings.showwarning
    warnings.showwarning = lambda *a, **k: None
    try:
        with M.quiet():
            yield
    finally:
        warnings.showwarning = old


def _observe_here(case):
    then = []
    with _silence():
        a = _one_run(case, again=True, then=bool(case.get("then")))
        b = _one_run(case) if a["outcome"] != "hang" else None
        # every later call of the history next to a fresh checker (equal seed) on the matrix of that call
        for t, run in enumerate(a.pop("then", [])):
            then.append({"a": run, "b": _one_run(_case_at(case, t)) if run["outcome"] != "hang" else None})
    if case["seed_kind"] == "none":
        # nothing to reproduce the draws from but the checker's own generator (cloned before the run)
        draws = a.get("clone_draws", [])
    else:
        # the checker's random_state handling: numpy.random.default_rng(seed) (a Generator is used as it is)
        draws = [float(u) for u in np.random.default_rng(case["seed"]).random(_n_draws(case))]
    obs = {"a": a, "b": b, "draws": draws}
    if case.get("then"):
        obs["then"] = then
    return obs


def _observe_in_child(case):
    """the refusal stream: a child process, with the alarm inside and a hard limit outside"""
    r, w = os.pipe()
    pid = os.fork()
    if pid == 0:
        code = 0
        try:
            os.close(r)
            data = pickle.dumps(_observe_here(case))
            with os.fdopen(w, "wb") as f:
                f.write(data)
        except BaseException:
            code = 1
        finally:
            os._exit(code)
    os.close(w)
    buf, deadline = b"", time.time() + 2 * ALARM_S + 15
    with os.fdopen(r, "rb", buffering=0) as f:
        while True:
            left = deadline - time.time()
            if left <= 0:
                break
            ready, _, _ = select.select([f], [], [], left)
            if not ready:
                break
            chunk = f.read(1 << 16)
            if not chunk:
                break
            buf += chunk
    if time.time() >= deadline:
        with contextlib.suppress(ProcessLookupError):
            os.kill(pid, signal.SIGKILL)
    os.waitpid(pid, 0)
    if not buf:
        return {"a": {"outcome": "hang", "seen": [], "answers": [], "original": None}, "b": None, "draws": []}
    return pickle.loads(buf)


def observe(case):
    if case.get("kind") == "zero":
        return _observe_in_child(case)
    return _observe_here(case)


# --------------------------------------------------------------------------- oracle helpers (exact)


def _strategy_exact(name, col):
    col = sorted(col)
    n = len(col)
    if name == "median":
        return col[n // 2] if n % 2 else (col[n // 2 - 1] + col[n // 2]) / 2
    if name == "mean":
        return sum(col) / n
    if name == "halfmean":
        return sum(col) / n / 2
    if name == "meanminus1":
        return sum(col) / n - 1
    if name == "negmean":
        return -sum(col) / n
    if name == "max":
        return col[-1]
    if name == "min":
        return col[0]
    raise KeyError(name)


def _gap_rows(frows, order, strategy):
    """property text: the absolute gap to the next-ranked alternative on every criterion; for the
    last-ranked alternative the configured aggregate of the other gaps"""
    rows = [frows[a] for a in order]
    gaps = [[abs(x - y) for x, y in zip(rows[i], rows[i + 1])] for i in range(len(rows) - 1)]
    k = len(rows[0])
    gaps.append([_strategy_exact(strategy, [g[j] for g in gaps]) for j in range(k)])
    return gaps


def _patched(answer, full):
    """missing alternatives appended (sorted) with the worst rank + 1"""
    missing = sorted(set(full) - set(answer["alts"]))
    alts = answer["alts"] + missing
    values = answer["values"] + [max(answer["values"]) + 1] * len(missing)
    return alts, values, missing


def _admissible_orders(alts, values, prefix, limit=50000):
    """all sorts of the ranking (best first) whose non-best part starts with `prefix`"""
    groups = {}
    for a, v in zip(alts, values):
        groups.setdefault(v, []).append(a)
    count = 1
    for g in groups.values():
        count *= math.factorial(len(g))
    if count > limit:
        return None
    out = []
    for combo in itertools.product(*[itertools.permutations(groups[v]) for v in sorted(groups)]):
        full = [a for g in combo for a in g]
        if full[1:1 + len(prefix)] == prefix:
            out.append(full)
    return out


def _mutants(case, run):
    """for every evaluation after the first: which rows differ from the original matrix"""
    orig = run["seen"][0]
    out = []
    for s in run["seen"][1:]:
        same_meta = all(s.get(k) == orig.get(k) for k in ("objectives", "weights", "alternatives", "alternatives_lab", "criteria",
                                                          "dtypes")) and \
            len(s["matrix"]) == len(orig["matrix"])
        diff = [i for i, (r, r0) in enumerate(zip(s["matrix"], orig["matrix"])) if r != r0] if same_meta else None
        out.append({"same_meta": same_meta, "diff": diff, "matrix": s["matrix"]})
    return out


def _scale(case):
    return max(1.0, max(abs(x) for r in case["dm"]["matrix"] for x in r))


def _check_mutant(case, frows, gaps, order, idx, mut):
    """clauses of the property for one mutant that must be the mutation of order[idx]; list of problems"""
    alts, objs = case["dm"]["alternatives"], case["dm"]["objectives"]
    a = order[idx]
    i = alts.index(a)
    if not mut["same_meta"]:
        return ["labels / objectives / weights / shape of a mutant differ from the original"]
    if mut["diff"] != [i]:
        return [f"mutant differs from the original in rows {mut['diff']}, expected exactly the row of {a!r} ({i})"]
    bad = []
    tol = Fraction(1e-12) * Fraction(_scale(case))
    change = [C.F(y) - x for y, x in zip(mut["matrix"][i], frows[a])]
    for j, ch in enumerate(change):
        if (objs[j] == 1 and ch > 0) or (objs[j] == -1 and ch < 0):
            bad.append(f"criterion {j} of {a!r} moved in the improving direction ({float(ch)!r}, objective {objs[j]})")
        if abs(ch) > gaps[idx][j] + tol:
            bad.append(f"criterion {j} of {a!r} moved by {float(abs(ch))!r}, more than the gap {float(gaps[idx][j])!r}")
    if all(ch == 0 for ch in change):
        bad.append(f"no criterion of {a!r} strictly worsened")
    return bad


def _simulate(case, run, order, frows):
    """what the property predicts for this order: (number of evaluations, outcome)"""
    full = case["dm"]["alternatives"]
    answers = run["answers"]
    n1 = len(order)

    def missing(t):
        return bool(set(full) - set(answers[t]["alts"]))

    if not answers:
        return 1, "?"
    if missing(0) and not case["allow"]:
        return 1, "ValueError"
    gaps = _gap_rows(frows, order, case["strategy"])
    evals = 1
    for t in range(n1 * case["repeat"]):
        if not any(g > 0 for g in gaps[t % n1]) or any(g < 0 for g in gaps[t % n1]):
            # no bounded strict worsening exists (a negative bound admits none at all): refusal
            return evals, "ValueError"
        if evals >= len(answers):
            return evals + 1, "at least one more evaluation"
        evals += 1
        if missing(evals - 1) and not case["allow"]:
            return evals, "ValueError"
    return evals, "ok"


def _explain(case, run):
    """find the order of the non-best alternatives that explains the recorded run.
    returns (order | None, problems)"""
    full = case["dm"]["alternatives"]
    frows = {a: [C.F(x) for x in r] for a, r in zip(full, case["dm"]["matrix"])}
    if not run["answers"]:
        return None, ["the decision maker was never asked to rank the original matrix"]
    palts, pvalues, _ = _patched(run["answers"][0], full)
    muts = _mutants(case, run)
    n1 = len(full) - 1
    # which alternative each mutant changed, as observed
    observed = []
    for m in muts:
        if not m["same_meta"] or m["diff"] is None or len(m["diff"]) != 1:
            return None, [f"a mutant differs from the original in rows {m['diff']} (exactly one expected)"
                          if m["same_meta"] else "labels / objectives / weights / shape of a mutant differ from the original"]
        observed.append(full[m["diff"][0]])
    prefix = observed[:n1]
    if len(set(prefix)) != len(prefix):
        return None, [f"an alternative was mutated twice in one repetition: {prefix}"]
    cands = _admissible_orders(palts, pvalues, prefix)
    if cands is None:
        return None, ["_skip_too_many_ties"]
    if not cands:
        return None, [f"the mutants {prefix} (in this order) are not a prefix of any sort of the original ranking "
                      f"{dict(zip(palts, pvalues))} with the best alternative left out"]
    n_seen, outcome = len(run["seen"]), run["outcome"]
    first_problems = None
    for cand in cands:
        order = cand[1:]
        problems = []
        if observed != [order[t % n1] for t in range(len(observed))]:
            problems.append(f"mutation sequence {observed} is not the non-best alternatives {order} once per repetition")
        else:
            gaps = _gap_rows(frows, order, case["strategy"])
            for t, m in enumerate(muts):
                problems += _check_mutant(case, frows, gaps, order, t % n1, m)
            exp_n, exp_out = _simulate(case, run, order, frows)
            if (exp_n, exp_out) != (n_seen, outcome):
                problems.append(f"expected {exp_n} evaluations and outcome {exp_out}, observed {n_seen} and {outcome}")
        if not problems:
            return order, []
        if first_problems is None:
            first_problems = problems
    return None, first_problems


# --------------------------------------------------------------------------- model requests


def _dmj(d):
    return {"alts": d["alternatives"], "crits": d["criteria"], "objs": d["objectives"], "wts": C.rats(d["weights"]),
            "cells": C.ratmat(d["matrix"])}


def _calls(case, obs):
    """the later calls of a history as (position, case of that call, observation of that call)"""
    return [(t, _case_at(case, t), {"a": o["a"], "b": o["b"], "draws": obs["draws"]}) for t, o in enumerate(obs.get("then") or [])]


def requests(case, obs):
    reqs = _requests_call(case, obs)
    for _, ct, ot in _calls(case, obs):
        reqs += _requests_call(ct, ot)
    return reqs


def _requests_call(case, obs):
    a = obs["a"]
    if a["outcome"] in ("hang", "dmaker-error") or not a["answers"]:
        return []
    order, problems = _explain(case, a)
    if order is None:
        return []
    reqs = [{"op": "rrt1", "dm": _dmj(case["dm"]), "order": order, "draws": C.rats(obs["draws"]), "repeat": case["repeat"],
             "strategy": case["strategy"], "results": [{k: x[k] for k in ("method", "alts", "values")} for x in a["answers"]],
             "allow": case["allow"]}]
    if a["outcome"] == "ok":
        exps = []
        for s, r in zip(a["seen"][1:], a["ranks"][1:]):
            exps.append({"mutated": r["mutated"], "iteration": r["iteration"], "noise": C.rats(r["noise"]), "dm": _dmj(s)})
        r0 = a["ranks"][0]
        tol = Fraction(1e-12) * Fraction(_scale(case))
        reqs.append({"op": "rrt1-check", "dm": _dmj(case["dm"]), "orank": {"alts": r0["alts"], "values": r0["values"]},
                     "order": order, "repeat": case["repeat"], "strategy": case["strategy"], "tol": C.rat(tol),
                     "experiments": exps})
    return reqs


# --------------------------------------------------------------------------- judge


def _first_difference(a, b):
    """where two runs that should coincide part: index of the evaluation and the two rows / noises"""
    for t, (x, y) in enumerate(zip(a["seen"], b["seen"])):
        if x != y:
            rows = [(i, r, q) for i, (r, q) in enumerate(zip(x["matrix"], y["matrix"])) if r != q]
            return {"evaluation": t, "rows": rows[:2]}
    if len(a["seen"]) != len(b["seen"]):
        return {"evaluations": [len(a["seen"]), len(b["seen"])]}
    for t, (x, y) in enumerate(zip(a.get("ranks") or [], b.get("ranks") or [])):
        if x != y:
            return {"ranking": t, "first": x, "second": y}
    return None


def judge(case, obs, replies):
    replies = list(replies or [])
    # (with no model at hand there are no replies at all; otherwise they come in the order of `requests`)
    n0 = len(_requests_call(case, obs)) if replies else 0
    out = _judge_call(case, obs, replies[:n0])
    pos = n0
    for t, ct, ot in _calls(case, obs):
        nt = len(_requests_call(ct, ot)) if replies else 0
        for f in _judge_call(ct, ot, replies[pos:pos + nt]):
            f["what"] = (f"call {t + 2} of ONE checker, on another matrix with the same labels ({case['then'][t]['how']}), judged "
                         f"against the matrix of that call: ") + f["what"]
            out.append(f)
        pos += nt
    return out


def _judge_call(case, obs, replies):
    out = []

    def prop(what, expected=None, observed=None, **kw):
        out.append(dict({"kind": "property", "what": what, "expected": expected, "observed": observed}, **kw))

    def corr(what, expected=None, observed=None):
        out.append({"kind": "correspondence", "what": what, "expected": expected, "observed": observed})

    a, b = obs["a"], obs["b"]
    full = case["dm"]["alternatives"]
    n = len(full)
    if a["outcome"] == "hang":
        prop(f"RankInvariantChecker.evaluate did not return within {ALARM_S} s (the noise loop never accepts a draw)",
             "a ranking comparator or a refusal", "hang")
        return out
    if a["outcome"] == "dmaker-error":
        return out  # the wrapped decision maker refused a matrix: outside the quantifier
    if a["outcome"] not in ("ok", "ValueError"):
        prop(f"RankInvariantChecker raised {a['outcome']}: {a.get('msg')}", "ok or ValueError", a["outcome"])
        return out
    # ---- first evaluation on the untouched matrix
    o = a["original"]
    s0 = a["seen"][0] if a["seen"] else None
    if s0 is None or any(s0.get(k) != o.get(k) for k in ("matrix", "objectives", "weights", "alternatives", "alternatives_lab",
                                                         "criteria")):
        prop("the first evaluation is not on the untouched matrix (cells, objectives, weights, labels with their types)", o, s0)
        return out
    # the label the decision matrix holds for every alternative, value and type (G.lab), by its str()
    held = dict(zip(full, o.get("alternatives_lab") or full))
    # ---- every clause about the mutants, the count and the outcome, for the order that explains the run
    order, problems = _explain(case, a)
    if order is None:
        if problems == ["_skip_too_many_ties"]:
            return out
        prop("rank-reversal experiments: " + "; ".join(problems[:3]), None,
             {"outcome": a["outcome"], "evaluations": len(a["seen"]), "answers": a["answers"][:1]})
        return out
    n1 = n - 1
    # ---- what the returned comparator says
    if a["outcome"] == "ok":
        ranks = a["ranks"]
        if len(ranks) != 1 + n1 * case["repeat"] or len(a["seen"]) != len(ranks):
            prop("number of rankings returned", 1 + n1 * case["repeat"], len(ranks))
            return out
        exp_names = ["Original"] + [f"M.{order[t % n1]}" + (f"_{t // n1 + 1}" if case["repeat"] > 1 else "")
                                    for t in range(n1 * case["repeat"])]
        if [r["name"] for r in ranks] != exp_names:
            prop("names of the rankings", exp_names, [r["name"] for r in ranks])
        r0 = ranks[0]
        if (r0["iteration"], r0["mutated"], r0["noise"]) != (None, None, None):
            prop("the original ranking carries mutation info", None, r0)
        for t, r in enumerate(ranks):
            ans = a["answers"][t]
            palts, pvalues, missing = _patched(ans, full)
            if r["alts"] != palts or r["values"] != pvalues or r["missing"] != missing:
                prop(f"ranking {t}: missing alternatives are not appended (sorted) with the worst rank + 1",
                     {"alts": palts, "values": pvalues, "missing": missing},
                     {"alts": r["alts"], "values": r["values"], "missing": r["missing"]})
            elif "alts_lab" in r and "alts_lab" in ans:
                # the same, value AND type of every label: what the decision maker answered, then the missing alternatives
                # as the decision matrix holds them
                plabs, mlabs = ans["alts_lab"] + [held[x] for x in missing], [held[x] for x in missing]
                if r["alts_lab"] != plabs or r["missing_lab"] != mlabs:
                    prop(f"ranking {t}: the alternatives of the returned ranking are not the labels (value and type) the decision "
                         f"maker ranked followed by the missing alternatives of the matrix",
                         {"alts": plabs, "missing": mlabs}, {"alts": r["alts_lab"], "missing": r["missing_lab"]})
            if t == 0:
                if r["method"] != ans["method"]:
                    prop("method name of the original ranking changed", ans["method"], r["method"])
                continue
            alt, it = order[(t - 1) % n1], (t - 1) // n1
            if r["mutated"] != alt or r["iteration"] != it:
                prop(f"ranking {t} is labelled ({r['mutated']!r}, {r['iteration']}), the experiment is ({alt!r}, {it})")
                continue
            if "mutated_lab" in r and r["mutated_lab"] != held[alt]:
                prop(f"ranking {t}: e_.rrt1.mutated is not the label of the alternative whose row changed (value and type)",
                     held[alt], r["mutated_lab"])
            if r["method"] != f"{ans['method']}+RRT1+{alt}_{it}":
                prop("method name of a mutant ranking", f"{ans['method']}+RRT1+{alt}_{it}", r["method"])
            if r["noise_index"] != case["dm"]["criteria"]:
                prop("stored noise is not indexed by the criteria", case["dm"]["criteria"], r["noise_index"])
                continue
            i = full.index(alt)
            old = np.array(case["dm"]["matrix"][i], dtype=float)
            new = np.array(a["seen"][t]["matrix"][i], dtype=float)
            if not np.array_equal(old + np.array(r["noise"], dtype=float), new):
                prop(f"stored noise of experiment ({alt!r}, {it}) is not the change applied", (new - old).tolist(), r["noise"])
    # ---- equal seeds, equal experiments
    seeded = case["seed_kind"] != "none"  # random_state=None: fresh entropy, nothing is promised
    sdesc = {"int": "random_state=%r", "npint": "random_state=numpy.int64(%r)", "npint32": "random_state=numpy.int32(%r)",
             "generator": "random_state=numpy.random.default_rng(%r)"}.get(case["seed_kind"], "%r") % (case["seed"],)
    if b is not None and seeded:
        if b["outcome"] != a["outcome"] or b["seen"] != a["seen"] or b.get("ranks") != a.get("ranks"):
            prop(f"two checkers built with equal seeds ({sdesc}) gave different experiments",
                 {"outcome": a["outcome"], "evaluations": len(a["seen"])}, {"outcome": b["outcome"], "evaluations": len(b["seen"])},
                 first_difference=_first_difference(a, b))
    ag = a.get("again")
    if ag is not None and seeded and ag["outcome"] != "hang":
        if ag["outcome"] != a["outcome"] or ag["seen"] != a["seen"] or ag.get("ranks") != a.get("ranks"):
            prop(f"one checker ({sdesc}) evaluating the same matrix twice gave different experiments",
                 {"outcome": a["outcome"], "evaluations": len(a["seen"])}, {"outcome": ag["outcome"], "evaluations": len(ag["seen"])},
                 first_difference=_first_difference(a, ag))
    if seeded and a.get("clone_draws") is not None and obs["draws"] and a["clone_draws"] != obs["draws"]:
        corr(f"a checker built with {sdesc} does not start from the state numpy.random.default_rng({case['seed']!r}) gives",
             obs["draws"][:4], a["clone_draws"][:4])
    # ---- correspondence with the model
    if not replies:
        return out
    rep = replies[0]
    tol = 1e-12 * _scale(case)
    if a["outcome"] == "ValueError":
        if rep.get("err") != "ValueError":
            corr("rrt1: the implementation refused (ValueError), the model did not", "ValueError", rep.get("err", "ok"))
        return out
    if "err" in rep:
        corr("rrt1: the model refused, the implementation did not", "ok", rep["err"])
        return out
    exps = rep["experiments"]
    ranks = a["ranks"]
    if len(exps) != len(ranks) - 1:
        corr("rrt1: number of experiments", len(exps), len(ranks) - 1)
        return out
    for t, (e, r) in enumerate(zip(exps, ranks[1:]), start=1):
        if (e["mutated"], e["iteration"]) != (r["mutated"], r["iteration"]):
            corr("rrt1: experiment labels", (e["mutated"], e["iteration"]), (r["mutated"], r["iteration"]))
            break
        mn = [float(C.frac(x)) for x in e["noise"]]
        if len(mn) != len(r["noise"]) or any(abs(x - y) > tol for x, y in zip(mn, r["noise"])):
            corr(f"rrt1: noise of experiment {t} (model from the reproduced draws vs recorded)", mn, r["noise"])
            break
        mr = [float(C.frac(x)) for x in e["row"]]
        ir = a["seen"][t]["matrix"][full.index(r["mutated"])]
        if any(abs(x - y) > tol for x, y in zip(mr, ir)):
            corr(f"rrt1: mutated row of experiment {t}", mr, ir)
            break
    if rep.get("names") != [r["name"] for r in ranks]:
        corr("rrt1: names", rep.get("names"), [r["name"] for r in ranks])
    for t, (p, r) in enumerate(zip(rep.get("patched", []), ranks)):
        got = {k: r[k] for k in ("method", "alts", "values", "missing", "mutated", "iteration")}
        exp = {k: p[k] for k in ("method", "alts", "values", "missing", "mutated", "iteration")}
        if got != exp:
            corr(f"rrt1: patched ranking {t}", exp, got)
            break
    if len(replies) > 1 and not replies[1].get("ok"):
        corr("rrt1-check: the model's trace checker rejects the recorded run", [], replies[1].get("failed"))
    return out


def nontrivial(case, obs):
    a = obs["a"]
    if case.get("then"):  # a history: the first call and at least one later call on another matrix went through
        later = [o["a"] for o in obs.get("then") or []]
        return a["outcome"] == "ok" and len(a["seen"]) >= 3 and any(r["outcome"] == "ok" and len(r["seen"]) >= 3 for r in later)
    return (a["outcome"] == "ok" and len(a["seen"]) >= 3) or a["outcome"] == "ValueError"


def tags(case, obs):
    a = obs["a"]
    d = case["dmaker"]
    t = [case["kind"], "outcome:" + a["outcome"], "maker:" + d["name"] + ("+" + d["inner"]["name"] if d["name"] == "pipe" else ""),
         "strategy:" + case["strategy"], "repeat=%d" % case["repeat"], "allow=%s" % case["allow"],
         "m=%d" % len(case["dm"]["alternatives"]), "n=%d" % len(case["dm"]["criteria"]), "family:" + case["dm"]["family"],
         "seed:" + case["seed_kind"]]
    if case["seed"] == 0:
        t.append("seed=0:" + case["seed_kind"])
    if a["outcome"] == "ValueError":
        msg = a.get("msg", "")
        t.append("refused:" + ("missing-alternative" if msg.startswith("Missing") else
                               "negative-bound(numpy)" if "high - low" in msg else "no-room"))
    t.append("labels:" + (case["dm"].get("alt_labels") or {"kind": "str"})["kind"])
    if a.get("original") and a["original"].get("alternatives_lab"):
        t.append("held-labels:" + "+".join(sorted({"int" if x.startswith("int:") else "str"
                                                    for x in a["original"]["alternatives_lab"]})))
    for i, o in enumerate(obs.get("then") or []):
        how, r = case["then"][i]["how"].split(":")[0], o["a"]
        t.append(f"history:call{i + 2}:{how}:{r['outcome']}")
        if r["answers"] and a["answers"] and i == 0:
            same = all(r["answers"][0][k] == a["answers"][0][k] for k in ("alts", "values"))
            t.append("history:second-matrix-" + ("same" if same else "other") + "-reference-ranking")
    objs = case["dm"]["objectives"]
    t.append("objs:" + ("mixed" if len(set(objs)) > 1 else "max" if objs[0] == 1 else "min"))
    if a["answers"]:
        v = a["answers"][0]["values"]
        if len(set(v)) < len(v):
            t.append("original-ranking-has-ties")
        if len(v) < len(case["dm"]["alternatives"]):
            t.append("original-drops-alternatives")
        if any(len(x["values"]) < len(case["dm"]["alternatives"]) for x in a["answers"][1:]):
            t.append("a-mutant-drops-alternatives")
    return t
