"""C05 — rankings do not depend on how the decision problem is written down.

Every case is ONE decision problem written down three ways and evaluated by the real code:
  P1  as generated;
  P2  alternatives listed in the order sigma, criteria (with objectives and weights) in the order tau,
      alternatives and criteria renamed by an injective map;
      -- in two thirds of the cases built from scratch (mkdm), in one third obtained FROM THE DecisionMatrix OBJECT OF P1
      with the library's own public selection API (dm[[criteria]], dm.loc[...], dm.iloc[...], dm.loc[alts, crits], chained
      in either order; a renaming is then applied with dm.copy(alternatives=..., criteria=...));
  P3  P1 with every weight multiplied by c > 0 (methods homogeneous in the weights: all but ELECTRE).
In a fixed share of the cases ONE pipeline object (or one set of transformer objects and one decision maker, chained by hand)
evaluates all three presentations one after the other, in varying order; elsewhere every evaluation gets fresh objects.
The results are compared BY LABEL (property oracle).  For kernel-only cases the Lean model (`agg`) is
evaluated on the three presentations too: it must agree with itself exactly at Rat and with the
implementation within tolerance (correspondence)."""
from __future__ import annotations

import math

import numpy as np

import common as C
import gen as G
import methods as M

PID = "C05"
RULE = (
    "cases: (decision matrix in the method's domain, row permutation sigma, column permutation tau applied to matrix, objectives "
    "and weights together, injective relabeling of alternatives and criteria (fresh names or a shuffle of the same names), weight "
    "multiplier c > 0 (power of two, dyadic or arbitrary near 1; powers of two 2^-60..2^60 and 1e-12..1e12 far from 1), and either a method from WSM, WPM, TOPSIS x 5 metrics, RatioMOORA, "
    "RefPointMOORA, FMF, MultiMOORA, ELECTRE1, ELECTRE2 or a pipeline of 1-4 transformers from Sum/Vector/MaxAbs/MinMax/Standar "
    "scalers (matrix / weights / both), Negate/InvertMinimize, Equal/Std/Entropy/CRITIC weighters followed by a method; a state "
    "machine keeps every step inside its domain). 2..12 alternatives, 2..6 criteria, never square, ties, duplicated rows, dyadic "
    "and arbitrary doubles; for the homogeneous methods 40% of the cases hold a pair of alternatives with close but distinct scores "
    "(one row a copy of another improved by a relative 1e-6..1e-3 on every / one criterion) and 20% have the weights of the first "
    "presentation themselves scaled by 2^+-20..50. The second presentation is built from scratch (mkdm) in two thirds of the cases "
    "and in one third derived from the DecisionMatrix object of the first one with the public selection API: dm[[criteria in the "
    "new order]], dm.loc[alternatives in the new order], dm.loc[:, criteria], dm.iloc[rows], dm.iloc[:, cols], the two-axis forms "
    "dm.loc[alts, crits] / dm.iloc[rows, cols] and chains of a row and a column selection in either order (renaming, if any, by "
    "dm.copy(alternatives=, criteria=)). Every evaluation gets fresh transformer / pipeline / method objects, except in a fixed share "
    "of every run (90 pipeline cases, 70% of them with at least one scaler, and 30 kernel-only cases in the quick tier) where ONE "
    "pipeline object - or one set of transformer objects and one decision maker chained by hand - evaluates all the presentations "
    "one after the other (order of the presentations varied; something is always re-listed), so that anything an object keeps "
    "from the first problem it saw shows as a difference between presentations. A further fixed share of every run (every method of "
    "ELECTRE2, ELECTRE1, MultiMOORA, TOPSIS, WSM on every size of 63, 64, 65, 127, 128, 129, 33, 100 alternatives in the "
    "quick tier, ELECTRE2 four times each: 64 cases) are LONG kernel-only problems with whole-number scores 1..9 (1..5) on 3-6 criteria and equal or few distinct weights (ELECTRE2 with demanding thresholds, which keep the outranking graphs of a long problem sparse and its ranking "
    "non-trivial), whose alternatives are re-listed (reversed, rotated, last one first, last one swapped with another, shuffled, the tail past "
    "the last block of 2^k first) so that the last-listed alternative is never last in the second writing. Both presentations run on the real code and are compared by label: scores within 1e-9*scale, ranks only "
    "through the pairwise relation on pairs whose first-presentation scores differ by more than 2e-9*scale, ELECTRE1 kernel exactly "
    "when no concordance / discordance value is within the margin of a threshold. Non-trivial: the second presentation differs "
    "from the first (non-identity permutation or renaming) or c != 1."
)
ASSUMPTIONS = [
    "scores agree when |a - b| <= 1e-9 * scale, scale a forward error bound computed from the data that reaches the method "
    "(sum|w|*max|a|, the TOPSIS closeness condition number, log magnitudes) times the conditioning of the transformers in front",
    "rank numbers are never compared across presentations: only the relation rank a < / = / > rank b on pairs whose scores in the "
    "first presentation (exact rationals of the reported floats) are more than 2e-9*scale apart; closer pairs are counted and skipped",
    "weights x c: rounding is relative to the scale of each presentation; the scale of the scaled presentation is computed from the "
    "data that reaches the method there (|c| x the first one for the methods of degree one in the weights, the log magnitudes of "
    "a*w*c for the multiplicative form, unchanged for TOPSIS) and the margin of a pair is 2e-9 x the larger of the two in the "
    "units of the first presentation - there is no absolute floor, so a collapse of distinct scores into one rank (or the split "
    "of a tie) at any magnitude of the weights is a violation",
    "ELECTRE: a case is decided only if no concordance / discordance value is within the margin of a threshold and no pair of "
    "weight sums of the weight-outranking test is within the margin (dyadic kernel-only cases are exact and always decided); "
    "ELECTRE2 as coded tests `weight == 1.0` (known finding K1 of C08): a case where rounding puts a weight on different sides of "
    "1.0 in the two presentations is counted and skipped",
    "pipelines whose transformers are ill conditioned on the generated data (amplification > 1e4: a sum that cancels, a nearly "
    "constant criterion under StandarScaler / entropy / CRITIC) or whose result is not finite are outside the domain: counted, skipped",
]
PARTIAL = (
    "the Lean theorems cover the aggregation kernels, dense ranking, MultiMOORA's count and the name/value pairing; ELECTRE1/2 and "
    "the transformers (scalers, inverters, weighters) are covered by the two-presentation run of the real code only. The model states "
    "exact equality; floating-point summation order changes under tau, so the code is compared up to rounding"
)
TRUSTED = ["Lean Float (C libm sqrt/log/log10) runs the model next to the code for WPM, FMF, euclidean TOPSIS; never in a theorem"]

KERNEL_NAMES = ["WSM", "WPM", "TOPSIS", "TOPSIS", "TOPSIS", "RatioMOORA", "RefPointMOORA", "FMF", "MultiMOORA", "ELECTRE1", "ELECTRE2"]
HOMOGENEOUS = {"WSM", "WPM", "TOPSIS", "RatioMOORA", "RefPointMOORA", "FMF", "MultiMOORA"}
FIELD_METRICS = ("sqeuclidean", "cityblock", "chebyshev")
AMP_MAX = 1e4

# ----------------------------------------------------------------------------- pipelines: a domain state machine

SCALERS = ["SumScaler", "VectorScaler", "MaxAbsScaler", "MinMaxScaler", "StandarScaler"]
STEP_KINDS = [(s, t) for s in SCALERS for t in ("matrix", "weights", "both")] + [
    ("NegateMinimize", None), ("InvertMinimize", None), ("EqualWeighter", None), ("StdWeighter", None),
    ("EntropyWeighter", None), ("CRITIC", None)]


def _apply_state(st, kind, target):
    """st = dict(msign, wsign, wequal, allmax); msign in pos|nonneg|colsign|mixed, wsign in pos|nonneg|mixed.
    returns the new state or None when the step is outside its domain / ill conditioned by construction"""
    st = dict(st)
    on_m = target in ("matrix", "both")
    on_w = target in ("weights", "both")
    if on_m and kind != "StandarScaler" or kind == "InvertMinimize":
        st["mstd"] = False
    if kind == "SumScaler":
        if on_m:
            if st["msign"] not in ("pos", "colsign"):
                return None
            st["msign"] = "pos"  # a negative column divided by its negative sum is positive
        if on_w and st["wsign"] != "pos":
            return None
    elif kind in ("VectorScaler", "MaxAbsScaler"):
        pass
    elif kind == "MinMaxScaler":
        if on_w:
            if st["wequal"]:
                return None
            st["wsign"] = "nonneg"
        if on_m:
            st["msign"] = "nonneg"
    elif kind == "StandarScaler":
        if on_w:
            if st["wequal"]:
                return None
            st["wsign"] = "mixed"
        if on_m:
            st["msign"] = "mixed"
            st["mstd"] = True  # every criterion now has the same standard deviation
    elif kind == "NegateMinimize":
        if not st["allmax"]:
            st["msign"] = {"pos": "colsign", "colsign": "colsign"}.get(st["msign"], "mixed")
        st["allmax"] = True
    elif kind == "InvertMinimize":
        if st["msign"] not in ("pos", "colsign"):
            return None
        st["allmax"] = True
    elif kind == "EqualWeighter":
        st["wsign"], st["wequal"] = "pos", True
    elif kind == "StdWeighter":
        st["wsign"], st["wequal"] = "pos", bool(st.get("mstd"))
    elif kind == "CRITIC":
        st["wsign"], st["wequal"] = "pos", False
    elif kind == "EntropyWeighter":
        if st["msign"] != "pos":
            return None
        st["wsign"], st["wequal"] = "pos", False
    return st


def _method_ok(st, name):
    if name in ("WSM",):
        return st["allmax"] and st["msign"] in ("pos", "nonneg")
    if name == "WPM":
        return st["allmax"] and st["msign"] == "pos"
    if name in ("FMF", "MultiMOORA"):
        return st["msign"] == "pos" and st["wsign"] == "pos"
    return True


def gen_steps(rng, name, st0, need_scaler=False):
    """`need_scaler`: keep only pipelines that hold at least one scaler (any of the five, any target)"""
    for _ in range(200):
        st, steps = dict(st0), []
        for _ in range(rng.randint(1, 4)):
            for _ in range(20):
                kind, target = rng.choice(STEP_KINDS)
                nst = _apply_state(st, kind, target)
                if nst is not None:
                    break
            else:
                break
            step = {"t": kind}
            if target:
                step["target"] = target
            if kind == "CRITIC":
                step["correlation"] = rng.choice(["pearson", "pearson", "spearman", "kendall"])
                step["scale"] = rng.random() < 0.8
            if kind == "EqualWeighter" and rng.random() < 0.5:
                step["base_value"] = rng.choice([0.5, 2.0, 3.0])
            if kind == "StandarScaler" and rng.random() < 0.3:
                step["with_mean"] = rng.random() < 0.5
                step["with_std"] = True
            steps.append(step)
            st = nst
        if steps and _method_ok(st, name) and (not need_scaler or any(s["t"] in SCALERS for s in steps)):
            return steps
    if st0["msign"] == "pos":
        return [{"t": "InvertMinimize"}, {"t": "SumScaler", "target": "both"}]  # valid for positive data and weights, any method
    return [{"t": "NegateMinimize"}, {"t": "MinMaxScaler", "target": "matrix"}]  # any data; not for the positive-only methods


def build_step(step):
    from skcriteria.preprocessing import invert_objectives as inv
    from skcriteria.preprocessing import scalers, weighters

    t = step["t"]
    p = {k: v for k, v in step.items() if k != "t"}
    if t in SCALERS:
        return getattr(scalers, t)(**p)
    if t in ("NegateMinimize", "InvertMinimize"):
        return getattr(inv, t)()
    return getattr(weighters, t)(**p)


def amplification(step, dm):
    """how much the transformer can magnify a relative rounding error of its input, on this very data
    (1 = well conditioned).  Used only to widen the tolerance / to declare the case out of domain."""
    X = dm.matrix.to_numpy(dtype=float)
    w = dm.weights.to_numpy(dtype=float)
    t, target = step["t"], step.get("target")
    amp = 1.0

    def vec_sum(v):
        s = abs(np.sum(v))
        return float(np.sum(np.abs(v)) / s) if s > 0 else math.inf

    def vec_std(v):
        sd = float(np.std(v))
        if sd == 0:
            return 1.0  # a constant vector is mapped to zeros exactly
        return float((abs(np.mean(v)) + np.max(np.abs(v))) / sd)

    if t == "SumScaler":
        if target in ("matrix", "both"):
            amp = max(amp, max(vec_sum(X[:, j]) for j in range(X.shape[1])))
        if target in ("weights", "both"):
            amp = max(amp, vec_sum(w))
    elif t == "MinMaxScaler":  # exact on its own, but magnifies the noise of whatever came before by max|x| / range
        def vec_rng(v):
            r = float(np.max(v) - np.min(v))
            return float(np.max(np.abs(v)) / r) if r > 0 else 1.0

        if target in ("matrix", "both"):
            amp = max(amp, max(vec_rng(X[:, j]) for j in range(X.shape[1])))
        if target in ("weights", "both"):
            amp = max(amp, vec_rng(w))
    elif t == "StandarScaler":
        if target in ("matrix", "both"):
            amp = max(amp, max(vec_std(X[:, j]) for j in range(X.shape[1])))
        if target in ("weights", "both"):
            amp = max(amp, vec_std(w))
    elif t == "StdWeighter":
        amp = max(vec_std(X[:, j]) for j in range(X.shape[1]))
    elif t == "EntropyWeighter":
        import scipy.stats

        div = 1 - scipy.stats.entropy(X, base=len(X), axis=0)
        tot = float(np.sum(div))
        amp = 1.0 / tot if tot > 0 else math.inf
    elif t == "CRITIC":
        import pandas as pd
        from skcriteria.preprocessing.scalers import matrix_scale_by_cenit_distance

        Z = matrix_scale_by_cenit_distance(X, dm.iobjectives.to_numpy()) if step.get("scale", True) else X
        d = np.std(Z, axis=0)
        c1 = 1 - pd.DataFrame(Z).corr(method=step.get("correlation", "pearson")).to_numpy(copy=True)
        u = d * np.sum(c1, axis=0)
        tot = float(np.sum(u))
        colamp = max(vec_std(Z[:, j]) for j in range(Z.shape[1]))
        amp = (float(len(d) * np.max(d)) / tot if tot > 0 else math.inf) * colamp
    if not math.isfinite(amp):
        return math.inf
    return max(1.0, amp)


# ----------------------------------------------------------------------------- generation


def _perm(rng, k, identity=False):
    p = list(range(k))
    if not identity:
        rng.shuffle(p)
    return p


def _relabel(rng, names, pool):
    how = rng.choice(["fresh", "shuffle", "mixed"])
    if how == "shuffle":  # the same names attached to other alternatives: position and sorted order both mislead
        new = list(names)
        rng.shuffle(new)
    elif how == "fresh":
        new = rng.sample([x for x in pool if x not in names], len(names)) if len(pool) - len(names) >= len(names) else rng.sample(pool, len(names))
    else:
        new = rng.sample(pool, len(names))
    return new


WIDE_POW2 = [10, 20, 30, 40, 50, 60]
WIDE_DECIMAL = [1e-12, 1e-9, 1e-6, 1e6, 1e9, 1e12]


def _multiplier(rng):
    """c > 0.  The property quantifies over ALL positive multipliers: besides the moderate ones, powers of two far from 1
    (the scaling itself is then exact in binary64, so the scaled scores are exactly c times the unscaled ones) and decimal
    powers (inexact scaling).  A ranking step that is not scale free (rounds or thresholds the scores at an absolute
    value) only shows when |c| * scale of the scores is far from 1."""
    kind = rng.choice(["pow2", "dyadic", "arbitrary", "arbitrary", "pow2-wide", "pow2-wide", "decimal-wide"])
    if kind == "pow2":
        return kind, float(2.0 ** rng.choice([-3, -2, -1, 1, 2, 5]))
    if kind == "dyadic":
        return kind, rng.choice([3, 5, 7, 9, 11, 13]) / 8
    if kind == "pow2-wide":
        return kind, float(2.0 ** (rng.choice([-1, 1]) * rng.choice(WIDE_POW2)))
    if kind == "decimal-wide":
        return kind, rng.choice(WIDE_DECIMAL)
    return kind, math.exp(rng.uniform(math.log(0.01), math.log(100)))


def _near_tie(rng, dm):
    """two alternatives whose scores are close but clearly distinct (relative gap about 1e-6 ... 1e-3, far above rounding):
    row i becomes a copy of row k that is slightly better on every criterion ("row": a dominated pair, every method
    separates it) or on a single criterion ("cell").  Returns the tag of what was done."""
    A, o = dm["matrix"], dm["objectives"]
    m, n = len(A), len(o)
    k = rng.randrange(m)
    if m >= 3 and rng.random() < 0.7:
        i = rng.choice([r for r in range(m) if r != k])
    else:
        A.append(None)
        dm["alternatives"] = G.labels(rng, G.LABEL_POOL_ALT, m + 1)
        i = m
    how = rng.choice(["row", "row", "cell"])
    # a power of two keeps dyadic cells exactly representable; otherwise any relative step in the range
    eps = 2.0 ** -rng.randint(10, 20) if (dm["family"] == "dyadic" or rng.random() < 0.3) else 10 ** rng.uniform(-6, -3)
    if how == "cell":
        eps = min(eps * 16, 2.0 ** -9)
    cols = range(n) if how == "row" else [rng.randrange(n)]
    row = list(A[k])
    for j in cols:
        step = abs(row[j]) * eps
        row[j] = row[j] + step if o[j] == 1 else (row[j] - step)
    if dm.get("int_matrix"):
        dm["int_matrix"] = False
    A[i] = row
    return "near-tie:" + how


def _fix_constant_columns(rng, dm, positive):
    A = dm["matrix"]
    for j in range(len(A[0])):
        if all(A[i][j] == A[0][j] for i in range(len(A))):
            i = rng.randrange(len(A))
            A[i][j] = A[i][j] + rng.choice([0.5, 1.0, 1.25])


def _norm_weights(dm):
    """weights summing to one (ELECTRE thresholds are fractions of the total weight); dyadic family: exact sixteenths"""
    w = dm["weights"]
    if dm["family"] == "dyadic":
        n = len(w)
        parts = [1] * n
        order = sorted(range(n), key=lambda j: -w[j])
        left = 16 - n
        tot = sum(w)
        for j in order:
            take = min(left, int(round((w[j] / tot) * (16 - n))))
            parts[j] += take
            left -= take
        parts[order[0]] += left
        dm["weights"] = [p / 16 for p in parts]
    else:
        s = sum(w)
        dm["weights"] = [x / s for x in w]


# the library's own ways of listing the alternatives / criteria of an existing DecisionMatrix in another order
# (rows step, columns step, which goes first); "2" = both axes in one call
SELECTIONS = ["getitem", "getitem", "getitem>loc", "loc>getitem", "getitem>iloc", "iloc>getitem", "loc2", "loc2", "iloc2", "iloc2",
              "loc>loccols", "loccols>loc", "iloc>iloccols", "iloccols>iloc", "loccols>iloc", "iloccols>loc"]


# in which order ONE transformer / pipeline / decision-maker object is handed the writings of the problem
EVAL_ORDERS = [["p1", "p2", "p3"], ["p1", "p2", "p3"], ["p1", "p3", "p2"], ["p2", "p1", "p3"], ["p3", "p2", "p1"]]


def make_case(rng, kind, max_m=11, force=None, share=False):
    """`share`: all the writings of the problem are evaluated one after the other by the SAME objects (see observe)"""
    spec = {"name": "MultiMOORA"} if force == "MultiMOORA-ties" else {"name": "ELECTRE2"} if force == "ELECTRE2-chain" else M.random_spec(rng, KERNEL_NAMES)
    name = spec["name"]
    if kind == "kernel":
        kw = dict(max_m=max_m, max_n=6, min_n=2, ties=rng.choice([0.0, 0.2, 0.5]), dups=rng.choice([0.0, 0.15, 0.3]))
        info = M.METHODS.get(name, {})
        if not (info.get("positive") or info.get("nonneg")):
            kw["positive"] = rng.random() < 0.6
        dm = M.in_domain_dm(rng, spec, **kw)
        steps = []
        if force == "ELECTRE2-chain":
            # small whole numbers on 6-8 alternatives and 3-5 criteria, permissive thresholds: the distillations then run for three
            # and more rounds (about a third of such problems), which is where the bookkeeping of the still-unranked alternatives matters
            m_, n_ = rng.randint(6, 8), rng.randint(3, 5)
            dm = G.dm_case(rng, m=m_, n=n_, family="dyadic", ties=0.0, dups=0.0)
            dm["matrix"] = [[float(rng.randint(1, 8)) for _ in range(n_)] for _ in range(m_)]
            dm["int_matrix"] = rng.random() < 0.5
            if rng.random() < 0.6:
                spec.update(p0=0.625, p1=0.5, p2=0.25, q0=0.875, q1=0.75)
        elif name == "MultiMOORA" and (force == "MultiMOORA-ties" or rng.random() < 0.6):
            # few distinct values and few distinct weights: alternatives then TIE in one of the three component rankings while the
            # other two disagree, which is where the pairwise dominance count depends on how a tie is read
            vals = rng.choice([[1.0, 2.0, 3.0], [1.0, 2.0], [1.0, 2.0, 4.0, 8.0]])
            dm["matrix"] = [[rng.choice(vals) for _ in row] for row in dm["matrix"]]
            if all(r == dm["matrix"][0] for r in dm["matrix"]):
                dm["matrix"][-1] = [v + 1 for v in dm["matrix"][-1]]
            wv = rng.choice([[1.0], [0.5, 1.0], [0.25, 0.5, 1.0]])
            dm["weights"] = [rng.choice(wv) for _ in dm["weights"]]
            dm["family"], dm["int_matrix"] = "dyadic", rng.random() < 0.5
        elif dm["family"] == "dyadic" and rng.random() < 0.12:
            # large common level, small spread (figures around 2^27 differing by units): exact in binary64 when differences are
            # taken first; a kernel that expands squares or sums before subtracting depends on the listing order here
            off = float(2 ** 27)
            dm["matrix"] = [[x + off for x in row] for row in dm["matrix"]]
            dm["int_matrix"] = False
    else:
        positive = name in ("WPM", "FMF", "MultiMOORA") or rng.random() < 0.8  # nothing in the step families makes data positive
        dm = G.dm_case(rng, positive=positive, max_m=max_m, max_n=6, min_m=2, min_n=2, ties=rng.choice([0.0, 0.2, 0.5]),
                       dups=rng.choice([0.0, 0.15, 0.3]))
        A = dm["matrix"]
        if all(r == A[0] for r in A):
            A[-1] = [v + 1 for v in A[-1]]
        st0 = {"msign": "pos" if positive else "mixed", "wsign": "pos", "wequal": False,
               "allmax": all(o == 1 for o in dm["objectives"])}
        steps = gen_steps(rng, name, st0, need_scaler=share and rng.random() < 0.7)
        weighter = any(s["t"] in ("StdWeighter", "EntropyWeighter", "CRITIC") for s in steps)
        if weighter:
            while len(dm["matrix"]) < 3:  # a weighter needs at least three alternatives
                dm["matrix"].append([G.value(rng, dm["family"], positive) for _ in dm["objectives"]])
                dm["alternatives"] = G.labels(rng, G.LABEL_POOL_ALT, len(dm["matrix"]))
        # a constant criterion becomes a column of zeros under MinMax / Standar scaling; Vector / Sum scaling then divide 0 by 0
        mtx = [i for i, s in enumerate(steps) if s.get("target") in ("matrix", "both")]
        zero_then_div = any(steps[i]["t"] in ("MinMaxScaler", "StandarScaler") and steps[k]["t"] in ("VectorScaler", "SumScaler")
                            for i in mtx for k in mtx if i < k)
        if weighter or zero_then_div:
            _fix_constant_columns(rng, dm, positive)
    extra_tags = []
    if name in HOMOGENEOUS:
        if rng.random() < 0.4:
            extra_tags.append(_near_tie(rng, dm))
        if rng.random() < 0.2:  # the first presentation itself far from unit scale (exact: a power of two)
            b = float(2.0 ** (rng.choice([-1, 1]) * rng.choice([20, 30, 40, 50])))
            dm["weights"] = [w * b for w in dm["weights"]]
            extra_tags.append("weights-prescaled:" + ("up" if b > 1 else "down"))
    m, n = len(dm["matrix"]), len(dm["objectives"])
    if m == n:  # never square
        extra = list(dm["matrix"][rng.randrange(m)]) if rng.random() < 0.3 else [G.value(rng, dm["family"], all(v > 0 for r in dm["matrix"] for v in r)) for _ in range(n)]
        dm["matrix"].append(extra)
        dm["alternatives"] = G.labels(rng, G.LABEL_POOL_ALT, m + 1)
        m += 1
    if name in ("ELECTRE1", "ELECTRE2") and kind == "kernel":
        _norm_weights(dm)
    if share:  # something is always re-listed (a renaming alone moves no number)
        mode = rng.choice(["all", "all", "cols", "rows"])
    else:
        mode = rng.choice(["all", "all", "all", "rows", "cols", "names"]) if force is None else rng.choice(["all", "rows"])
    ckind, c = _multiplier(rng)
    # how the second presentation comes into being: rebuilt from scratch, or selected out of the first DecisionMatrix
    via = rng.choice(SELECTIONS) if rng.random() < 1 / 3 else "mkdm"
    shared = {}
    if share:
        # who is the one object: the pipeline (pipe.evaluate on every writing), or the transformers and the method chained by
        # hand (tr.transform ... dec.evaluate on every writing); a kernel-only case has just the decision maker
        shared = {"share": (rng.choice(["pipeline", "pipeline", "steps"]) if steps else "method"), "order": list(rng.choice(EVAL_ORDERS))}
    return {
        **shared,
        "kind": kind, "spec": spec, "steps": steps, "dm": dm, "mode": mode, "via": via,
        "sigma": _perm(rng, m, identity=mode in ("cols", "names")),
        "tau": _perm(rng, n, identity=mode in ("rows", "names")),
        "alts2": _relabel(rng, dm["alternatives"], G.LABEL_POOL_ALT) if mode in ("all", "names") else list(dm["alternatives"]),
        "crits2": _relabel(rng, dm["criteria"], G.LABEL_POOL_CRIT) if mode in ("all", "names") else list(dm["criteria"]),
        "c": c, "c_kind": ckind, "gen_tags": extra_tags,
    }


# ----------------------------------------------------------------------------- long problems
# Numbers of alternatives around the block sizes an implementation may process at a time (a power of two, one less, one more;
# 33 and 100 for good measure) and the methods evaluated on them.  Every (method, size) pair is part of EVERY run.
LONG_SIZES = [63, 64, 65, 127, 128, 129, 33, 100]
LONG_METHODS = ["ELECTRE2", "ELECTRE1", "MultiMOORA", "TOPSIS", "WSM"]
# how the alternatives are re-listed: the alternative listed LAST in the first writing is never listed last in the second one
LONG_SIGMAS = ["reverse", "rotate", "last-to-front", "swap-last", "shuffle", "shuffle", "tail-first"]


def _long_sigma(rng, m, how):
    """P2 lists alternative sigma[r] in row r; sigma[m-1] != m-1 always (the last-listed alternative moves elsewhere)"""
    ident = list(range(m))
    if how == "reverse":
        return ident[::-1]
    if how == "rotate":
        r = rng.randint(1, m - 1)
        return ident[r:] + ident[:r]
    if how == "last-to-front":
        return [m - 1] + ident[:-1]
    if how == "swap-last":  # only two alternatives change place: the last one and another one
        k = rng.randrange(m - 1)
        ident[k], ident[m - 1] = ident[m - 1], ident[k]
        return ident
    if how == "tail-first":  # the alternatives past the last whole block of 2^k (or the last few) are listed first
        cut = max(b for b in (1, 2, 4, 8, 16, 32, 64, 128) if b < m) if rng.random() < 0.6 else m - rng.randint(1, 5)
        return ident[cut:] + ident[:cut]
    while True:
        rng.shuffle(ident)
        if ident[m - 1] != m - 1:
            return ident


def _long_names(rng, m, avoid=()):
    """m distinct names whose sorted order has nothing to do with the order of listing"""
    style = rng.choice(["alt%03d", "A%d", "x%d", "N%04d"])
    out = [style % k for k in rng.sample(range(4 * m), m)]
    return out if not set(out) & set(avoid) else ["n_" + x for x in out]


def _sixteenths(rng, n, equalish):
    """n positive weights that are whole sixteenths and sum to one: as equal as sixteenths allow, or two / three levels"""
    if equalish:
        parts = [16 // n + (1 if j < 16 % n else 0) for j in range(n)]
    else:
        while True:
            parts = [rng.choice([1, 2, 4]) for _ in range(n)]
            if sum(parts) <= 16:
                break
        parts[rng.randrange(n)] += 16 - sum(parts)
    rng.shuffle(parts)
    return [p / 16 for p in parts]


# ELECTRE2 thresholds for long problems (all whole eighths: exact against concordance values that are whole sixteenths)
LONG_E2_THRESHOLDS = [
    {},  # the defaults 0.65 / 0.5 / 0.35, 0.65 / 0.35
    {"p0": 0.875, "p1": 0.75, "p2": 0.5, "q0": 0.5, "q1": 0.25},
    {"p0": 0.75, "p1": 0.625, "p2": 0.5, "q0": 0.375, "q1": 0.25},
    {"p0": 1.0, "p1": 0.875, "p2": 0.625, "q0": 0.25, "q1": 0.125},
]


def _demanding_e2(rng):
    p0 = rng.choice([6, 7, 8])
    p1 = rng.randint(5, p0)
    p2 = rng.randint(3, p1)
    q0 = rng.randint(1, 4)
    q1 = rng.randint(0, q0)
    return {"p0": p0 / 8, "p1": p1 / 8, "p2": p2 / 8, "q0": q0 / 8, "q1": q1 / 8}


def make_long_case(rng, name, m):
    """a LONG problem (m alternatives) with discrete, heavily tied scores: whole numbers 1..9 (or 1..5) on 3-6 criteria, equal or
    few distinct weights, kernel only; the alternatives are re-listed so that the last-listed one moves (and, in some cases, the
    criteria too).  Such data give many pairs that outrank / tie each other, so a kernel that handles the alternatives block by
    block, or the last alternative apart from the others, depends on the listing here and nowhere in the short problems."""
    n = rng.randint(3, 6)
    top = rng.choice([9, 9, 9, 5])
    if name == "ELECTRE2":
        # with a hundred alternatives almost everybody is outranked by somebody unless the thresholds are demanding: under
        # permissive ones the distillation stops at once and all the alternatives share one rank (nothing to compare).  Demanding
        # thresholds keep the strong / weak graphs sparse: 3-12 ranks, and single arcs of the graphs decide who is ranked where
        spec = {"name": name, **rng.choice(LONG_E2_THRESHOLDS + [_demanding_e2(rng), _demanding_e2(rng)])}
        if len(spec) == 1:  # the default thresholds separate long problems only on five and more criteria with a wide scale
            n, top = rng.randint(5, 6), 9
    elif name == "ELECTRE1":
        spec = rng.choice([{"name": name}, {"name": name, "p": rng.choice([5, 6, 7, 8]) / 8, "q": rng.choice([0, 1, 2, 3, 4]) / 8}])
    elif name == "TOPSIS":
        spec = M.random_spec(rng, [name])
    else:
        spec = {"name": name}
    objs = [1] * n if (name == "WSM" or rng.random() < 0.5) else G.objectives(rng, n, "mixed")
    A = [[float(rng.randint(1, top)) for _ in range(n)] for _ in range(m)]
    family = "dyadic"
    if name in ("ELECTRE1", "ELECTRE2") or rng.random() < 0.5:
        wts = _sixteenths(rng, n, equalish=rng.random() < 0.6)  # exact: every concordance value / weight sum is decided
    elif rng.random() < 0.6:
        wts, family = [1.0 / n] * n, ("dyadic" if n == 4 else "float")  # equal weights
    else:
        wts = [rng.choice([0.5, 1.0, 2.0]) for _ in range(n)]
    alts = _long_names(rng, m)
    dm = {"matrix": A, "int_matrix": rng.random() < 0.5, "objectives": objs, "weights": wts, "alternatives": alts,
          "criteria": G.labels(rng, G.LABEL_POOL_CRIT, n), "family": family}
    how = rng.choice(LONG_SIGMAS)
    mode = rng.choice(["rows", "rows", "all"])
    if mode == "all":
        alts2 = rng.choice([lambda: rng.sample(alts, m), lambda: _long_names(rng, m, avoid=alts)])()
        crits2 = _relabel(rng, dm["criteria"], G.LABEL_POOL_CRIT)
    else:
        alts2, crits2 = list(alts), list(dm["criteria"])
    ckind, c = _multiplier(rng)
    shared = {"share": "method", "order": list(rng.choice(EVAL_ORDERS))} if rng.random() < 0.25 else {}
    return {
        **shared,
        "kind": "kernel", "spec": spec, "steps": [], "dm": dm, "mode": mode,
        "via": rng.choice(SELECTIONS) if rng.random() < 1 / 3 else "mkdm",
        "sigma": _long_sigma(rng, m, how), "tau": _perm(rng, n, identity=mode == "rows"),
        "alts2": alts2, "crits2": crits2, "c": c, "c_kind": ckind,
        "gen_tags": ["long", "long:m=%d" % m, "long-sigma:" + how],
    }


def gen(ctx):
    rng = ctx.rng
    cases = []
    for _ in range(ctx.n(170, 3000)):
        cases.append(make_case(rng, "kernel"))
    for _ in range(ctx.n(170, 3400)):
        cases.append(make_case(rng, "pipeline"))
    # a fixed share of every run: MultiMOORA where component rankings tie, alternatives re-listed
    for _ in range(ctx.n(40, 400)):
        cases.append(make_case(rng, "kernel", max_m=7, force="MultiMOORA-ties"))
    # … and ELECTRE2 on problems whose distillations run for many rounds, alternatives re-listed
    for _ in range(ctx.n(30, 300)):
        cases.append(make_case(rng, "kernel", max_m=9, force="ELECTRE2-chain"))
    # … and ONE object for all the writings: the same pipeline (or the same transformer objects and the same decision maker,
    # chained by hand) evaluates the problem as given, re-listed and with scaled weights one after the other, in varying order.
    # Whatever an object keeps from the first problem it was handed (a fitted scaler, cached statistics, weights) then shows
    # as a difference between the presentations.  Everywhere above every evaluation gets fresh objects.
    for _ in range(ctx.n(90, 1500)):
        cases.append(make_case(rng, "pipeline", share=True))
    for _ in range(ctx.n(30, 400)):
        cases.append(make_case(rng, "kernel", share=True))
    # ... and LONG problems, every method of LONG_METHODS on every size of LONG_SIZES (see make_long_case)
    for _ in range(ctx.n(1, 5)):
        for name in LONG_METHODS:
            for m in LONG_SIZES:
                for _ in range(4 if name == "ELECTRE2" else 1):  # the one method here that is a loop over pairs and rounds
                    cases.append(make_long_case(rng, name, m))
    return cases


# ----------------------------------------------------------------------------- the presentations


def presentation2(case):
    """P2: row i is alternative sigma[i] (renamed alts2[sigma[i]]), column j is criterion tau[j]"""
    dm, sg, tau = case["dm"], case["sigma"], case["tau"]
    return {
        "matrix": [[dm["matrix"][i][j] for j in tau] for i in sg],
        "objectives": [dm["objectives"][j] for j in tau],
        "weights": [dm["weights"][j] for j in tau],
        "alternatives": [case["alts2"][i] for i in sg],
        "criteria": [case["crits2"][j] for j in tau],
    }


def select2(dm1, case):
    """P2 obtained from the DecisionMatrix of P1 through the public selection API: the alternatives listed in the order sigma,
    the criteria in the order tau (objectives and weights must follow their criteria), then renamed"""
    d, sg, tau = case["dm"], case["sigma"], case["tau"]
    alts = [d["alternatives"][i] for i in sg]
    crits = [d["criteria"][j] for j in tau]
    ops = {
        "getitem": lambda x: x[crits],
        "loc": lambda x: x.loc[alts],
        "iloc": lambda x: x.iloc[list(sg)],
        "loccols": lambda x: x.loc[:, crits],
        "iloccols": lambda x: x.iloc[:, list(tau)],
        "loc2": lambda x: x.loc[alts, crits],
        "iloc2": lambda x: x.iloc[list(sg), list(tau)],
    }
    dm2 = dm1
    steps = case["via"].split(">")
    if steps == ["getitem"]:  # dm[[...]] selects criteria only: the alternatives are re-listed first or afterwards
        steps = ["getitem", "loc"] if (sg[0] + tau[0]) % 2 else ["loc", "getitem"]
    for s in steps:
        dm2 = ops[s](dm2)
    a2 = [case["alts2"][i] for i in sg]
    c2 = [case["crits2"][j] for j in tau]
    if a2 != alts or c2 != crits:
        dm2 = dm2.copy(alternatives=a2, criteria=c2)
    return dm2


def presentation3(case):
    dm = dict(case["dm"])
    dm["weights"] = [float(w * case["c"]) for w in case["dm"]["weights"]]
    return dm


EXTRAS = {
    "MultiMOORA": ("score", "ratio_score", "refpoint_score", "fmf_score"),
    "ELECTRE1": (),
    "ELECTRE2": ("score",),
}


def _objects(case):
    """the objects that evaluate a presentation: (decision maker, transformers, pipeline or None)"""
    from skcriteria.pipeline import mkpipe

    dec = M.build(case["spec"])
    trs = [build_step(s) for s in case["steps"]]
    return dec, trs, (mkpipe(*trs, dec) if trs else None)


def _run(dmdict, case, record, build=None, objs=None):
    """`build`: a callable returning the DecisionMatrix to evaluate (default: made from scratch out of `dmdict`).
    `objs`: the (decision maker, transformers, pipeline) to evaluate with -- objects that may already have evaluated other
    writings of the problem (default: fresh ones).  The conditioning of the steps and the data that reaches the method are
    then measured with separate fresh transformers, so that the shared objects see the evaluations and nothing else."""
    from skcriteria.pipeline import mkpipe

    spec, steps = case["spec"], case["steps"]
    out = {"amp": 1.0}
    try:
        dm = G.mkdm(dmdict) if build is None else build()
        final = dm
        if objs is not None:
            dec, trs, pipe = objs
            amp = 1.0
            for s in steps:
                amp *= amplification(s, final)
                out["amp"] = amp if math.isfinite(amp) else "inf"
                final = build_step(s).transform(final)
            if case.get("share") == "steps":
                x = dm
                for tr in trs:
                    x = tr.transform(x)
                res = dec.evaluate(x)
            else:
                res = (pipe if pipe is not None else dec).evaluate(dm)
        elif steps:
            dec = M.build(spec)
            trs = [build_step(s) for s in steps]
            pipe = mkpipe(*trs, dec)
            amp = 1.0
            for s, tr in zip(steps, trs):  # conditioning of every transformer on the data that reaches it
                amp *= amplification(s, final)
                out["amp"] = amp if math.isfinite(amp) else "inf"
                final = tr.transform(final)
            res = pipe.evaluate(dm)
        else:
            res = M.build(spec).evaluate(dm)
        if record:
            out["final"] = {"matrix": final.matrix.to_numpy(dtype=float).tolist(), "weights": final.weights.to_numpy(dtype=float).tolist(),
                            "objectives": [int(x) for x in final.iobjectives.to_numpy()]}
    except Exception as e:
        return {"err": G.err_name(e), "msg": str(e)[:200], "amp": out["amp"]}
    name = spec["name"]
    out["alts"] = [str(a) for a in res.alternatives]
    if name == "ELECTRE1":
        out["kernel"] = [bool(x) for x in res.kernel_]
    else:
        out["rank"] = [int(x) for x in res.rank_]
    for k in EXTRAS.get(name, (M.METHODS[name]["score"],) if name in M.METHODS else ()):
        out[k] = np.asarray(res.e_[k], dtype=float).tolist()
    if name == "MultiMOORA":
        out["rank_matrix"] = np.asarray(res.e_["rank_matrix"]).tolist()
    if name in ("ELECTRE1", "ELECTRE2") and record:
        out["matrix_concordance"] = np.asarray(res.e_["matrix_concordance"], dtype=float).tolist()
        out["matrix_discordance"] = np.asarray(res.e_["matrix_discordance"], dtype=float).tolist()
    return out


def _observe_shared(case):
    """one set of objects for all the writings of the problem, handed to them in the order case["order"]"""
    try:
        objs = _objects(case)
    except Exception as e:  # the configuration itself is refused: the same outcome for every writing
        err = {"err": G.err_name(e), "msg": str(e)[:200], "amp": 1.0}
        return {k: dict(err) for k in (["p1", "p2", "p3"] if case["spec"]["name"] in HOMOGENEOUS else ["p1", "p2"])}
    first = {}

    def dm1():
        if "dm" not in first:
            first["dm"] = G.mkdm(case["dm"])
        return first["dm"]

    o = {}
    for k in case["order"]:
        if k == "p1":
            o[k] = _run(None, case, True, build=dm1, objs=objs)
        elif k == "p2":
            if case.get("via", "mkdm") != "mkdm":
                o[k] = _run(None, case, True, build=lambda: select2(dm1(), case), objs=objs)
            else:
                o[k] = _run(presentation2(case), case, True, objs=objs)
        elif case["spec"]["name"] in HOMOGENEOUS:
            o[k] = _run(presentation3(case), case, True, objs=objs)
    return o


def observe(case):
    with M.quiet():
        if case.get("share"):
            return _observe_shared(case)
        first = {}

        def build1():
            first["dm"] = G.mkdm(case["dm"])
            return first["dm"]

        o = {"p1": _run(case["dm"], case, True, build=build1)}
        if case.get("via", "mkdm") != "mkdm" and "dm" in first:
            # the user's route: the very object that was just evaluated is re-listed with dm[[...]] / .loc / .iloc
            o["p2"] = _run(None, case, True, build=lambda: select2(first["dm"], case))
        else:
            o["p2"] = _run(presentation2(case), case, True)
        if case["spec"]["name"] in HOMOGENEOUS:
            o["p3"] = _run(presentation3(case), case, True)  # the data that reaches the method: the scale of P3's own scores
        return o


# ----------------------------------------------------------------------------- Lean model requests (kernel-only cases)

MODEL = {"WSM": ("wsm", "rat"), "RatioMOORA": ("ratio", "rat"), "RefPointMOORA": ("refpoint", "rat"), "WPM": ("wpm", "float"),
         "FMF": ("fmf", "float")}


def _model_of(spec):
    name = spec["name"]
    if name == "TOPSIS":
        metric = spec.get("metric", "euclidean")
        return [("topsis", "rat" if metric in FIELD_METRICS else "float", metric)]
    if name == "MultiMOORA":
        return [("ratio", "rat", None), ("refpoint", "rat", None), ("fmf", "float", None)]
    if name in MODEL:
        return [MODEL[name] + (None,)]
    return []


def _agg_req(dmdict, method, domain, metric, weights=None):
    enc = C.rat if domain == "rat" else C.fbits
    w = dmdict["weights"] if weights is None else weights
    r = {"op": "agg", "method": method, "domain": domain, "M": [[enc(x) for x in row] for row in dmdict["matrix"]],
         "O": ["max" if x == 1 else "min" for x in dmdict["objectives"]], "w": [enc(x) for x in w]}
    if metric:
        r["metric"] = metric
    return r


def requests(case, obs):
    if case["kind"] != "kernel" or "err" in obs["p1"] or "err" in obs["p2"]:
        return []
    reqs = []
    dm1, dm2 = case["dm"], presentation2(case)
    cF = C.F(case["c"])
    for method, domain, metric in _model_of(case["spec"]):
        reqs.append(_agg_req(dm1, method, domain, metric))
        reqs.append(_agg_req(dm2, method, domain, metric))
        if domain == "rat":  # exactly c * w: the model must scale exactly
            reqs.append(_agg_req(dm1, method, domain, metric, [C.F(w) * cF for w in dm1["weights"]]))
        else:
            reqs.append(_agg_req(dm1, method, domain, metric, presentation3(case)["weights"]))
    # dense ranks of the implementation's own scores, listed in both orders (rank_row_perm on the model)
    name = case["spec"]["name"]
    if name in M.METHODS and name != "ELECTRE2" and "p1" in obs:
        key = M.METHODS[name]["score"]
        s1 = obs["p1"].get(key)
        if s1 is not None and all(math.isfinite(x) for x in s1):
            rev = M.METHODS[name]["rev"]
            reqs.append({"op": "rank", "scores": C.rats(s1), "reverse": rev})
            reqs.append({"op": "rank", "scores": C.rats([s1[i] for i in case["sigma"]]), "reverse": rev})
    return reqs


# ----------------------------------------------------------------------------- scales


def _scales(case, p1):
    """forward error bounds for the scores the method reports, from the data that reaches the method in P1"""
    name = case["spec"]["name"]
    fin = p1["final"]
    A = np.array(fin["matrix"], dtype=float)
    w = np.array(fin["weights"], dtype=float)
    o = np.array(fin["objectives"])
    n = A.shape[1]
    tiny = 1e-300
    lin = max(float(np.sum(np.abs(w)) * np.max(np.abs(A))), tiny)
    out = {}
    with np.errstate(all="ignore"):
        if name in ("WSM", "RatioMOORA", "RefPointMOORA"):
            out["score"] = lin
        elif name == "WPM":
            out["score"] = max(float(np.sum(np.abs(w)) * max(1.0, np.max(np.abs(np.log10(A))))), tiny)
        elif name in ("FMF", "MultiMOORA"):
            fm = float(n * max(1.0, np.max(np.abs(np.log(A * w)))))
            if name == "FMF":
                out["score"] = fm
            else:
                out.update(ratio_score=lin, refpoint_score=lin, fmf_score=fm, score=1.0)
        elif name == "TOPSIS":
            metric = case["spec"].get("metric", "euclidean")
            V = A * w
            hi, lo = V.max(axis=0), V.min(axis=0)
            ideal = np.where(o == 1, hi, lo)
            anti = np.where(o == 1, lo, hi)

            def dist(x, t):
                d = np.abs(x - t)
                if metric == "cityblock":
                    return d.sum(axis=1)
                if metric == "chebyshev":
                    return d.max(axis=1)
                return np.sqrt((d ** 2).sum(axis=1))

            tot = dist(V, ideal) + dist(V, anti)
            vmax = float(np.max(np.abs(V)))
            mn = float(np.min(tot))
            cond = (n * vmax / mn) if mn > 0 else math.inf
            cond = max(1.0, cond) ** (2 if metric == "sqeuclidean" else 1)
            # the allowance above is for the rounding of the weighted values a*w, which the subtraction from the ideal then
            # magnifies.  When every product a*w is exact in binary64 (dyadic data), the differences are exact too and nothing
            # is magnified: a large common level with a small spread is then as well conditioned as any other problem
            if mn > 0 and all(C.F(float(A[i, j])) * C.F(float(w[j])) == C.F(float(V[i, j])) for i in range(A.shape[0]) for j in range(n)):
                cond = 1.0
            out["similarity"] = cond
        elif name == "ELECTRE2":
            out["score"] = 1.0
    return out


def _score_keys(name):
    if name == "MultiMOORA":
        return ["ratio_score", "refpoint_score", "fmf_score"]
    if name == "ELECTRE1":
        return []
    return [M.METHODS[name]["score"]]


def _electre_decided(case, p1, p2, amp):
    """(decided?, reason) — no concordance/discordance value within the margin of a threshold, no fragile weight-sum comparison"""
    spec = case["spec"]
    exact = case["kind"] == "kernel" and case["dm"]["family"] == "dyadic"
    fin = p1["final"]
    w = [C.F(x) for x in fin["weights"]]
    wsum = float(sum(abs(x) for x in w))
    mc = 2e-9 * max(1.0, wsum) * amp
    md = 2e-9 * amp
    if spec["name"] == "ELECTRE1":
        ps, qs = [spec.get("p", 0.65)], [spec.get("q", 0.35)]
    else:
        ps = [spec.get("p0", 0.65), spec.get("p1", 0.5), spec.get("p2", 0.35)]
        qs = [spec.get("q0", 0.65), spec.get("q1", 0.35)]
    m = len(p1["alts"])
    for mat, ths, mar in ((p1["matrix_concordance"], ps, mc), (p1["matrix_discordance"], qs, md)):
        for i in range(m):
            for k in range(m):
                if i == k:
                    continue
                v = mat[i][k]
                if not math.isfinite(v):
                    return False, "nonfinite"
                for t in ths:
                    if abs(v - t) > 2 * mar:  # certainly outside the margin (a correctly rounded difference): skip the exact test
                        continue
                    gap = abs(C.F(v) - C.F(t))
                    if gap <= mar and not (exact and gap == 0):
                        return False, "near-threshold"
    if spec["name"] == "ELECTRE2" and not exact:
        # electre2() calls weights_outrank(matrix, objectives, weights) with the last two swapped (known finding K1 of C08):
        # inside, a criterion counts as "maximise" iff its WEIGHT equals 1.0 exactly.  That is a threshold on the weights; when
        # a transformer in front leaves a weight within rounding of 1.0 and the two presentations fall on different sides of
        # it (1.0 vs 1.0000000000000002), the case is inside the property's rounding exemption: counted, skipped.
        w2 = p2["final"]["weights"]
        inv_tau = _inv_positions(case["tau"])
        for j, wj in enumerate(fin["weights"]):
            if abs(wj - 1.0) <= 2e-9 * amp and (wj == 1.0) != (w2[inv_tau[j]] == 1.0):
                return False, "weight-crosses-1.0-by-rounding-K1"
        A = [[C.F(x) for x in r] for r in fin["matrix"]]
        o = fin["objectives"]
        for a in range(m):
            for b in range(a + 1, m):
                sa = sum(w[j] for j in range(len(w)) if (A[a][j] - A[b][j]) * o[j] > 0)
                sb = sum(w[j] for j in range(len(w)) if (A[b][j] - A[a][j]) * o[j] > 0)
                if abs(sa - sb) <= mc and not (sa == 0 and sb == 0):
                    return False, "near-weight-tie"
    return True, ""


# ----------------------------------------------------------------------------- judge


def _sgn(x):
    return (x > 0) - (x < 0)


def judge(case, obs, replies):
    out, tg = [], []
    obs["_tags"] = tg
    name = case["spec"]["name"]
    label = name + ("+" + ">".join(s["t"] for s in case["steps"]) if case["steps"] else "")

    def prop(what, expected=None, observed=None):
        out.append({"kind": "property", "what": f"{label}: {what}", "expected": expected, "observed": observed})

    def corr(what, expected=None, observed=None):
        out.append({"kind": "correspondence", "what": f"{label}: {what}", "expected": expected, "observed": observed})

    p1, p2, p3 = obs["p1"], obs["p2"], obs.get("p3")
    amps = [p.get("amp", 1.0) for p in (p1, p2, p3) if p is not None]
    amp = math.inf if "inf" in amps else max(amps)
    if amp > AMP_MAX:  # a transformer magnifies rounding noise on this data: no presentation is meaningful
        tg.append("skip:ill-conditioned-pipeline")
        return out
    # ---- refusals: a ValueError is the code's way of saying "outside my domain"; it must not depend on the presentation
    errs = {k: p.get("err") for k, p in (("p1", p1), ("p2", p2), ("p3", p3)) if p is not None}
    if any(errs.values()):
        for k, e in errs.items():
            if e and e != "ValueError":
                prop(f"presentation {k} of an in-domain problem raised {e}: {obs[k].get('msg')}", "a result", e)
                return out
        if len(set(bool(e) for e in errs.values())) > 1:
            prop("one presentation of the problem is refused (ValueError) and another is evaluated", "the same outcome", errs)
        else:
            tg.append("skip:refused-in-every-presentation")
        return out
    keys = _score_keys(name)
    for k in keys + (["score"] if name == "MultiMOORA" else []):
        if not all(math.isfinite(x) for x in p1[k]):
            tg.append("skip:non-finite-score")
            return out
    scales = _scales(case, p1)
    if any(not math.isfinite(v) for v in scales.values()):
        tg.append("skip:degenerate-topsis")
        return out
    # ---- rounding is relative to the scale of the scores of EACH presentation.  P3's scores live on |c| x the scale of P1's for
    # the methods of degree one in the weights (there `in P1 units` = divided by the ratio of the weight sums that reach the
    # method), on P3's own log magnitudes for the multiplicative form, on the same [0, 1] for TOPSIS.  The margin of a pair is
    # the larger of the two, expressed in P1 units: on correct code a pair further apart than that in P1 is further apart than
    # 2e-9 x (its own scale) in P3 too, so it must keep its order there -- whatever c is.
    scales3 = {}
    if p3 is not None and "final" in p3:
        s3 = _scales(case, p3)
        W1 = float(np.sum(np.abs(np.array(p1["final"]["weights"], dtype=float))))
        W3 = float(np.sum(np.abs(np.array(p3["final"]["weights"], dtype=float))))
        unit = (W1 / W3) if (W1 > 0 and W3 > 0 and math.isfinite(W1 / W3)) else 1.0
        for k, v in s3.items():
            degree_one = (name in ("WSM", "WPM", "RatioMOORA", "RefPointMOORA") and k == "score") or k in ("ratio_score", "refpoint_score")
            scales3[k] = v * unit if degree_one else v
        if any(not math.isfinite(v) for v in scales3.values()):
            tg.append("skip:degenerate-after-scaling")
            return out
    # ---- by label: nothing below looks at positions, only at the names the results themselves carry
    names1 = [str(a) for a in case["dm"]["alternatives"]]
    m = len(names1)

    def positions(p, names, which):
        pos = {a: i for i, a in enumerate(p["alts"])}
        if len(pos) != len(p["alts"]) or set(pos) != set(names):
            prop(f"the result ({which}) does not name exactly the alternatives of its input", sorted(names), p["alts"])
            return None
        return [pos[a] for a in names]

    idx1 = positions(p1, names1, "first presentation")
    idx2 = positions(p2, [str(a) for a in case["alts2"]], "permuted / renamed")
    idx3 = positions(p3, names1, "scaled weights") if p3 is not None else None
    if idx1 is None or idx2 is None or (p3 is not None and idx3 is None):
        return out
    alts1 = names1
    # re-index P1 by the input's order of alternatives (what `idx` of the other presentations refers to)
    p1 = dict(p1)
    for k in ("rank", "kernel", "rank_matrix", "score", "similarity", "ratio_score", "refpoint_score", "fmf_score"):
        if k in p1:
            p1[k] = [p1[k][j] for j in idx1]
    for k in ("matrix_concordance", "matrix_discordance"):
        if k in p1:
            p1[k] = [[p1[k][a][b] for b in idx1] for a in idx1]

    def compare_scores(pb, idx, which):
        ok = True
        for k in keys:
            sc = scales[k] * amp
            tol = 1e-9 * sc
            for i in range(m):
                a, b = p1[k][i], pb[k][idx[i]]
                if not (math.isfinite(b) and abs(a - b) <= tol):
                    prop(f"{k} of alternative {alts1[i]!r} differs between the presentations ({which})",
                         {"first": a, "tol": tol}, {"second": b, "listed_as": pb["alts"][idx[i]]})
                    ok = False
                    break
        return ok

    def compare_order(pb, idx, which, key, r1, rb, scaled=False):
        """pairwise relation of the ranks on pairs separated by more than the margin in P1 (`scaled`: the other presentation is
        P3, the margin is relative to the scale of each of the two presentations)"""
        sc = (max(scales[key], scales3.get(key, 0.0)) if scaled else scales[key]) * amp
        margin = C.F(2e-9 * sc)
        s = [C.F(x) for x in p1[key]]
        fl, mf = p1[key], float(margin)
        for i in range(m):
            for k in range(i + 1, m):
                # the float difference is correctly rounded: beyond twice the margin it is certainly beyond the margin, and the
                # exact test (the only one that decides) is needed for the closer pairs only -- long problems have m^2 / 2 pairs
                d = abs(fl[i] - fl[k])
                if not d > 2 * mf and abs(s[i] - s[k]) <= margin:
                    tg.append("near-tie-pair-skipped")
                    continue
                if scaled and d <= 1000000 * mf and abs(s[i] - s[k]) <= 500000 * margin:
                    tg.append("scaled:close-pair-compared")  # distinct scores, relative gap below 1e-3
                a, b = _sgn(r1[i] - r1[k]), _sgn(rb[idx[i]] - rb[idx[k]])
                if a != b:
                    prop(f"alternatives {alts1[i]!r} and {alts1[k]!r} are ordered differently in the two presentations ({which}, by {key})",
                         {"scores_first": [p1[key][i], p1[key][k]], "ranks_first": [r1[i], r1[k]]},
                         {"ranks_second": [rb[idx[i]], rb[idx[k]]]})
                    return False
                tg.append("pair-compared")
        return True

    if name == "ELECTRE1" or name == "ELECTRE2":
        ok, why = _electre_decided(case, p1, p2, amp)
        if not ok:
            tg.append("skip:electre-" + why)
            return out
        tg.append("electre-decided")
        if name == "ELECTRE1":
            k1 = p1["kernel"]
            k2 = [p2["kernel"][idx2[i]] for i in range(m)]
            if k1 != k2:
                bad = next(i for i in range(m) if k1[i] != k2[i])
                prop(f"kernel membership of {alts1[bad]!r} differs between the presentations", k1, k2)
        else:
            if compare_scores(p2, idx2, "permuted / renamed"):
                compare_order(p2, idx2, "permuted / renamed", "score", p1["rank"], p2["rank"])
    elif name == "MultiMOORA":
        for pb, idx, which in ((p2, idx2, "permuted / renamed"), (p3, idx3, f"weights x {case['c']!r}")):
            if which.startswith("weights"):
                comp_ok = True
            else:
                comp_ok = compare_scores(pb, idx, which)
            if not comp_ok:
                continue
            same_rm = True
            for col, key in enumerate(("ratio_score", "refpoint_score", "fmf_score")):
                r1 = [row[col] for row in p1["rank_matrix"]]
                rb = [row[col] for row in pb["rank_matrix"]]
                if not compare_order(pb, idx, which, key, r1, rb, scaled=which.startswith("weights")):
                    same_rm = False
                    break
                if any(_sgn(r1[i] - r1[k]) != _sgn(rb[idx[i]] - rb[idx[k]]) for i in range(m) for k in range(i + 1, m)):
                    same_rm = False  # only near-tie pairs differ: the final count is not comparable
            if not same_rm:
                tg.append("skip:multimoora-count-after-near-tie")
                continue
            # identical component relations => the pairwise-dominance count must follow the alternatives exactly
            rm1 = p1["rank_matrix"]
            rmb = [pb["rank_matrix"][idx[i]] for i in range(m)]
            if rm1 == rmb:
                sb = [pb["score"][idx[i]] for i in range(m)]
                if p1["score"] != sb:
                    prop(f"MultiMOORA score differs between the presentations although the rank matrix is the same ({which})", p1["score"], sb)
                rb = [pb["rank"][idx[i]] for i in range(m)]
                if p1["rank"] != rb:
                    prop(f"MultiMOORA ranking differs between the presentations although the rank matrix is the same ({which})", p1["rank"], rb)
                tg.append("multimoora-count-compared")
            else:
                tg.append("skip:multimoora-count-after-near-tie")
    else:
        key = keys[0]
        if compare_scores(p2, idx2, "permuted / renamed"):
            compare_order(p2, idx2, "permuted / renamed", key, p1["rank"], p2["rank"])
        if p3 is not None:
            if all(math.isfinite(x) for x in p3[key]):
                compare_order(p3, idx3, f"weights x {case['c']!r}", key, p1["rank"], p3["rank"], scaled=True)
            else:
                prop(f"scores are not finite after multiplying the weights by {case['c']!r}", p1[key], p3[key])

    # ---- correspondence with the Lean model (kernel-only cases)
    if case["kind"] == "kernel" and replies:
        models = _model_of(case["spec"])
        sg = case["sigma"]
        cF = C.F(case["c"])
        mkeys = {"MultiMOORA": ["ratio_score", "refpoint_score", "fmf_score"]}.get(name, keys)
        for q, ((method, domain, metric), key) in enumerate(zip(models, mkeys)):
            r1, r2, r3 = replies[3 * q: 3 * q + 3]
            sc = scales[key]
            if domain == "rat":
                v1, v2, v3 = (C.fracs(r["score"]) for r in (r1, r2, r3))
                if [v2[idx] for idx in _inv_positions(sg)] != v1:
                    corr(f"model {method} is not invariant under the permutation of alternatives / criteria (exact Rat)",
                         [str(x) for x in v1], [str(x) for x in v2])
                if method == "topsis":
                    if v3 != v1:
                        corr("model topsis similarity changes with the weight multiplier (exact Rat)", [str(x) for x in v1], [str(x) for x in v3])
                elif v3 != [cF * x for x in v1]:
                    corr(f"model {method} score is not multiplied by c (exact Rat)", [str(cF * x) for x in v1], [str(x) for x in v3])
                f1 = [float(x) for x in v1]
            else:
                f1, f2, f3 = ([C.unfbits(x) for x in r["score"]] for r in (r1, r2, r3))
                f2l = [f2[idx] for idx in _inv_positions(sg)]
                if any(abs(a - b) > 1e-9 * sc for a, b in zip(f1, f2l) if math.isfinite(a)):
                    corr(f"model {method} (Float) differs between the presentations beyond the tolerance", f1, f2l)
            if any(abs(a - b) > 1e-9 * sc for a, b in zip(f1, p1[key]) if math.isfinite(b)):
                corr(f"{key}: model vs implementation", f1, p1[key])
        rest = replies[3 * len(models):]
        if len(rest) == 2 and "rank" in p1:
            ra, rb = rest[0]["ranks"], rest[1]["ranks"]
            if ra != p1["rank"]:
                corr("rank: model dense rank of the reported scores vs implementation", ra, p1["rank"])
            if [ra[i] for i in sg] != rb:
                corr("rank: model ranks do not follow the alternatives under the row permutation", [ra[i] for i in sg], rb)
    return out


def _inv_positions(sigma):
    """P2 row r holds alternative sigma[r]; position in P2 of alternative i"""
    inv = [0] * len(sigma)
    for r, i in enumerate(sigma):
        inv[i] = r
    return inv


def nontrivial(case, obs):
    m, n = len(case["sigma"]), len(case["tau"])
    moved = case["sigma"] != list(range(m)) or case["tau"] != list(range(n)) or case["alts2"] != case["dm"]["alternatives"]
    return moved or case["c"] != 1.0


def tags(case, obs):
    name = case["spec"]["name"]
    t = ["kind:" + case["kind"], "method:" + name, "family:" + case["dm"].get("family", "?"), "mode:" + case["mode"],
         "c:" + case["c_kind"], "via:" + case.get("via", "mkdm")]
    if case.get("via", "mkdm") != "mkdm":
        t.append("via:selection-api")
    t.append("objects:" + ("shared:" + case["share"] if case.get("share") else "fresh"))
    if case.get("share"):
        t.append("shared-order:" + ">".join(case["order"]))
        if any(s["t"] in SCALERS for s in case["steps"]):
            t.append("shared:with-scaler")
    if name == "TOPSIS":
        t.append("metric:" + case["spec"].get("metric", "euclidean"))
    for s in case["steps"]:
        t.append("step:" + s["t"] + ((":" + s["target"]) if "target" in s else ""))
    if case["steps"]:
        t.append("pipeline-length:%d" % len(case["steps"]))
    o = case["dm"]["objectives"]
    t.append("objs:" + ("max" if all(x == 1 for x in o) else "min" if all(x == -1 for x in o) else "mixed"))
    rows = [tuple(r) for r in case["dm"]["matrix"]]
    if len(set(rows)) < len(rows):
        t.append("duplicated-rows")
    t.extend(case.get("gen_tags", []))
    if "long" in case.get("gen_tags", []) and isinstance(obs.get("p1"), dict) and "rank" in obs["p1"]:
        k = len(set(obs["p1"]["rank"]))
        t.append("long:%s:distinct-ranks:%s" % (name, k if k < 3 else "3+"))
    if name in HOMOGENEOUS:
        e = abs(math.log2(case["c"]))
        t.append("log2|c|:" + ("<=5" if e <= 5 else "5-25" if e <= 25 else ">25"))
    t.extend(obs.get("_tags", []))
    return t
