"""C10 — transformers change only the part of the decision matrix they declare."""
from __future__ import annotations

import hashlib

import numpy as np

import common as C
import gen as G

PID = "C10"
RULE = (
    "cases: one decision matrix (1-9 alternatives x 1-5 criteria; per-criterion dtype int64 or float64 mixed at random, "
    "sometimes all-int / all-float; dyadic k/8 values or arbitrary doubles; distinct weights; mixed objectives; labels drawn "
    "from a non-sorted pool) + a list of 1-4 transformer steps applied through the public API (`T.transform(dm)` for one "
    "step, `mkpipe(*steps, WeightedSumModel()).transform(dm)` for several and for a third of the single steps). Steps: EVERY "
    "built-in class (StandarScaler, MinMaxScaler, MaxAbsScaler, MaxScaler, VectorScaler, SumScaler, PushNegatives, "
    "AddValueToZero x target in {matrix, weights, both} x their parameters; CenitDistanceMatrixScaler, CenitDistance; "
    "EqualWeighter, StdWeighter, EntropyWeighter, CRITIC, Critic x parameters; NegateMinimize, InvertMinimize, "
    "MinimizeToMaximize; Filter, FilterGT/GE/LT/LE/EQ/NE, FilterIn/NotIn with thresholds drawn from the column, "
    "FilterNonDominated x strict; the callables of a function-based Filter answer with a boolean mask or with a NON-boolean "
    "0/1 mask (np.where(c, 1, 0), c.astype(int / uint8 / float)) or are `lambda e: e` over a 0/1 indicator criterion - every "
    "mask form x {all-int, all-float, mixed} matrix x {exactly one, two or three} criteria in every run; SimpleImputer, KNNImputer, IterativeImputer x parameters on matrices with missing cells) "
    "and user transformers made with `mktransformer` that return a random subset of {matrix, objectives, weights, dtypes, "
    "alternatives, criteria} (+ `hparams`, `dtypes: None`; both signature styles). Every input is inside the numeric domain "
    "of the steps by construction (positive where a division needs it, no constant column for range/variance based steps "
    "- except in the constant-criterion family below, where only an ANSWER is judged -, "
    ">= 3 alternatives for the statistical weighters); an exception is judged only if the failing step's own input is in "
    "its domain. IMPUTERS ON A CRITERION WITHOUT ANY OBSERVED VALUE: the three imputers x keep_empty_criteria in {default, "
    "False, True} on matrices with one or two all-missing criteria; oracle: a refusal (ValueError) or an answer with exactly "
    "the input's criteria, objectives and weights. ONE OBJECT, TWO MATRICES: the same pipeline object (and single transformer "
    "object) applied consecutively to two matrices with identical labels, objectives and dtypes whose weights / values differ "
    "slightly (one weight + 3e-9, one cell x (1 + 1e-7), both) or clearly (or not at all); each output is judged against ITS "
    "OWN input by the same part-by-part bit comparison, and must be a new object. INVERSION THAT LEAVES THE NUMBERS AS THEY "
    "ARE: every objective inverter x {alone, alone inside a pipeline, a step between weight-only steps and domain-free later "
    "steps} on matrices where one / every / some of the MINIMISE criteria hold only values the inversion maps to themselves "
    "(all 1, only +-1, all -1 for the 1/x inverters; all 0, 0.0 / -0.0 for NegateMinimize; int64 and float64 columns) - every "
    "objective must still come back maximise. WHOLE NUMBERS FLOAT64 CANNOT HOLD: every weighter x parameters (alone, alone "
    "inside a pipeline, in pipelines of 2-4 weight-only steps: weighters, weight-target scalers, user transformers that do "
    "not return the matrix) on all-int64 and all-uint64 matrices (built without passing through float) with one or more "
    "criteria of odd values in 2**53 .. 2**63 (2**64 for uint64), some negative for int64 - the matrix must come back with "
    "the same integer dtype and the same bytes. Both families appear in every run. FILTERS OVER CELLS THAT ARE NOT FINITE "
    "(a fixed share of every run): every by-criteria filter class (Filter, FilterGT/GE/LT/LE/EQ/NE, FilterIn/NotIn) x {alone, "
    "alone inside a pipeline, filter -> (weight-only step ->) imputer, among weight-only steps} x {NaN, +-inf, both} on "
    "matrices (>= 4 alternatives, >= 3 criteria) where at least one SURVIVING row holds a NaN / +inf / -inf cell in a "
    "criterion the filter does not look at (sometimes also in one it looks at, and in dropped rows); the surviving rows must "
    "come back bit-identical (NaN stays NaN, inf stays inf). In these pipelines every step is ALSO applied by itself to the "
    "output of the steps before it and judged against that input (the filter step of filter -> imputer is judged on what the "
    "filter returned, not on what the imputer made of it). LABELS THAT ARE NOT STRINGS (a fixed share of every run): every "
    "built-in class x target, pipelines of 1-4 steps and user transformers on matrices whose alternatives and / or criteria "
    "are whole numbers >= 1000 (python int, numpy int32 / int64 / uint16) or floats (python float, numpy float32 / float64; "
    "whole or with a fractional part), passed to mkdm as a list or as an array; the keys of a by-criteria filter must be "
    "strings, so under such a filter the alternatives are the non-string ones (or the criteria are and the filter, with "
    "ignore_missing_criteria, finds none of its keys). Labels are read from `dm.alternatives` / `dm.criteria` and compared "
    "with values AND types (2019 is not '2019'). A CONSTANT CRITERION UNDER THE MATRIX-ONLY CLASSES (a fixed share of every run): "
    "CenitDistanceMatrixScaler, CenitDistance, every scaler with target='matrix' x parameters and the three imputers x {alone, "
    "alone inside a pipeline, a step among other matrix-only / weight-only steps (every step also judged by itself)} on "
    "matrices where one / several / all criteria hold ONE value for every alternative (a value of the column, 0, or a "
    "non-dyadic double) and on single-alternative matrices, every criterion with its non-zero weight: whatever the step makes "
    "of such a column (0/0 included), weights and objectives must come back bit-identical and the labels unchanged. CRITERIA "
    "OF ONE KIND BUT DIFFERENT WIDTHS, THE NARROWER FIRST (a fixed share of every run): float32 followed by float64 criteria "
    "holding values a float32 cannot hold (0.1, 1/3, arbitrary doubles), int8 / int16 / int32 followed by int64 and uint8 "
    "followed by uint64 criteria holding whole numbers above the narrow maximum; built by mkdm(array, dtypes=[...]), by mkdm of "
    "a pandas DataFrame with per-column dtypes, or by the DecisionMatrix constructor on such a frame; through every step that "
    "does not target the matrix (every weighter, every scaler with target='weights', FilterNonDominated x strict, a "
    "by-criteria filter, every objective inverter - judged on its maximise criteria -, user transformers returning only the "
    "weights or a subset without the matrix) x {alone, alone inside a pipeline, among weight-only steps (every step also "
    "judged by itself)}: cells bit-identical (surviving rows under filters), per-criterion dtypes against the model's "
    "declared sets. CALLABLES THAT WORK IN PLACE ON WHAT THEY ARE GIVEN (a fixed share of every run): a function-based Filter whose callables rewrite the criterion array they receive - np.clip(e, lo, hi, out=e), e -= e.mean(), e *= 0, np.negative(e, out=e), e += 1, e.fill(max), e.sort() - before or after they compute the mask (every mask form but the indicator) x {all-int, all-float, mixed} matrix x {one, two} criteria x {alone, alone inside a pipeline, among weight-only steps (every step also judged by itself)}; drawn so that a SURVIVING row holds a cell the callable's own copy had rewritten: the surviving rows must come back bit-identical (and the input matrix untouched). WEIGHT-ONLY STEPS OVER NEGATIVE CELLS (a fixed share of every run): every weighter x parameters (EntropyWeighter twice) and every scaler with target='weights' x {all-int, all-float, mixed} x {alone, alone inside a pipeline, among 1-3 other weight-only steps (every step also judged by itself)} on matrices (>= 3 alternatives, >= 2 criteria, none constant) with one / some / a whole criterion of / only negative cells: whatever weights the step answers with (NaN included; a refusal outside the step's numeric domain is not judged), the matrix must come back bit-identical. One extra case per run holds the table extracted from the tree (class x target -> rewritten keys). "
    "Non-trivial: the transform answered and changed at least one part; distinct by case hash."
)
ASSUMPTIONS = [
    "criteria and alternative labels are unique and all of ONE type: strings, whole numbers >= 1000 or floats that are not a "
    "position 0..k-1 (mkdm does not enforce it; the generator does; a label equal to a position is ambiguous by design in "
    "`dm.alternatives[k]`)",
    "weights are finite; matrix cells are finite except the missing cells (NaN) given to imputers and the NaN / +-inf cells "
    "given to by-criteria filters (which have no numeric domain: they only compare)",
    "a user function made into a transformer returns well-shaped parts and, if it returns concrete dtypes, dtypes that store "
    "its matrix exactly ('It is the function's responsibility to maintain compatibility', extend.py)",
    "dtypes are not named by the property text: they are judged against the model's declared sets only (correspondence)",
]
PARTIAL = (
    "structural model: the numeric functions (scaling, weighting, inversion, imputation, masks, pandas dtype inference and "
    "casts) are uninterpreted parameters; 'bit-identical' is 'the same value, no arithmetic in between'. The column count of "
    "a matrix without rows is not visible in the list-of-rows model."
)
EXHAUSTIVE = False

PARTS = ["matrix", "objectives", "weights", "dtypes", "alternatives", "criteria"]
TARGETS = ["matrix", "weights", "both"]
SWITCH = ["StandarScaler", "MinMaxScaler", "MaxAbsScaler", "MaxScaler", "VectorScaler", "SumScaler", "PushNegatives", "AddValueToZero"]
CENIT = ["CenitDistanceMatrixScaler", "CenitDistance"]
WEIGHTERS = ["EqualWeighter", "StdWeighter", "EntropyWeighter", "CRITIC", "Critic"]
INVERTERS = ["NegateMinimize", "InvertMinimize", "MinimizeToMaximize"]
ARITH = ["GT", "GE", "LT", "LE", "EQ", "NE"]
BYCRIT = ARITH + ["In", "NotIn", "Fn"]
IMPUTERS = ["SimpleImputer", "KNNImputer", "IterativeImputer"]
# what the callable of a function-based `Filter` answers with: a boolean mask, or a 0/1 mask that is not boolean
# (np.where(cond, 1, 0), cond.astype(int / uint8 / float)), or the 0/1 indicator criterion itself (lambda e: e)
MASK_FORMS = ["bool", "where", "astype", "uint8", "float", "indicator"]
# cells that are not finite in rows a by-criteria filter keeps
NF_WHAT = ["nan", "inf", "both"]
NF_SHAPES = ["alone", "alone-in-pipeline", "then-imputer", "among-weight-steps"]
# labels that are not strings: python numbers and numpy scalars
LABEL_KINDS = ["int", "float", "int32", "int64", "uint16", "float32", "float64"]
FAMILY = {"scaler": "targetSwitch", "cenit": "cenit", "weighter": "weighter", "inverter": "inverter", "filter": "filter",
          "nondom": "nonDominated", "imputer": "imputer", "user": "user"}


def extract(ctx):
    """regenerate lean/Skc/Generated/Transformers.lean from the tree under test (before the Lean build)"""
    import extract as X

    changed = X.transformers_c10()
    C.log(f"C10 extract: Skc/Generated/Transformers.lean {'regenerated from ' + str(C.REPO) if changed else 'unchanged'}")


# --------------------------------------------------------------------------- generators


def _dm(rng, *, m=None, n=None, positive=True, zeros=False, nan=False, min_m=1, max_m=9, min_n=1, max_n=5, mix=None,
        nonconst=True, dtypes=None):
    m = m or rng.randint(min_m, max_m)
    n = n or rng.randint(min_n, max_n)
    family = rng.choice(["dyadic", "dyadic", "float"])
    kind = dtypes or rng.choice(["mixed", "mixed", "mixed", "int", "float"])
    if kind == "mixed":
        dts = [rng.choice(["int64", "float64"]) for _ in range(n)]
        if n >= 2 and len(set(dts)) == 1:
            dts[rng.randrange(n)] = "int64" if dts[0] == "float64" else "float64"
    else:
        dts = [kind + "64"] * n
    cols = []
    for j in range(n):
        if dts[j] == "int64":
            col = [rng.randint(1 if positive else -16, 40) for _ in range(m)]
        else:
            col = [G.value(rng, family, positive) for _ in range(m)]
        for i in range(1, m):
            if rng.random() < 0.2:
                col[i] = col[rng.randrange(i)]
        if zeros:
            for i in range(m):
                if rng.random() < 0.2:
                    col[i] = 0 if dts[j] == "int64" else 0.0
        if nonconst and m >= 2 and len(set(col)) == 1:
            col[-1] = col[-1] + 1
        if nan and dts[j] == "float64" and m >= 3:
            for i in rng.sample(range(m), rng.randint(0, m - 2)):
                col[i] = None
        cols.append(col)
    if nan and not any(x is None for col in cols for x in col):
        fl = [j for j in range(n) if dts[j] == "float64"]
        if fl and m >= 3:
            cols[rng.choice(fl)][rng.randrange(m)] = None
    return {
        "matrix": [[cols[j][i] for j in range(n)] for i in range(m)],
        "dtypes": dts,
        "objectives": G.objectives(rng, n, mix),
        "weights": G.weights(rng, n, family),
        "alternatives": G.labels(rng, G.LABEL_POOL_ALT, m),
        "criteria": G.labels(rng, G.LABEL_POOL_CRIT, n),
        "family": family,
    }


def _scaler_params(rng, cls):
    if cls == "StandarScaler":
        return rng.choice([{}, {"with_mean": False}, {"with_std": False}, {"with_mean": False, "with_std": False}])
    if cls == "MinMaxScaler":
        return rng.choice([{}, {"clip": True}, {"criteria_range": [-1, 1]}, {"criteria_range": [0.25, 4], "clip": True}])
    if cls == "AddValueToZero":
        return rng.choice([{}, {"value": 0.5}, {"value": 2}, {"value": 0.125}])
    return {}


def _weighter_params(rng, cls):
    if cls == "EqualWeighter":
        return rng.choice([{}, {"base_value": 1}, {"base_value": 2.5}, {"base_value": 10}])
    if cls in ("CRITIC", "Critic"):
        return {"correlation": rng.choice(["pearson", "spearman", "kendall"]), "scale": rng.random() < 0.6}
    return {}


def _imputer_params(rng, cls):
    if cls == "SimpleImputer":
        return rng.choice([{}, {"strategy": "median"}, {"strategy": "most_frequent"}, {"strategy": "constant", "fill_value": 7},
                           {"strategy": "mean", "keep_empty_criteria": True}])
    if cls == "KNNImputer":
        return {"n_neighbors": rng.choice([1, 2, 3]), "weights": rng.choice(["uniform", "distance"])}
    return {"max_iter": rng.choice([1, 2, 4]), "initial_strategy": rng.choice(["mean", "median"]),
            "imputation_order": rng.choice(["ascending", "descending", "roman"]), "random_state": rng.choice([0, 7])}


def _threshold(rng, col):
    vals = [v for v in col if v is not None]
    t = rng.choice(vals)
    if rng.random() < 0.25:
        t = t + rng.choice([-1, 1]) / 8
    return t


def _filter_spec(rng, dm, cls=None, keep_at_least=0):
    """a criteria filter over present criteria (plus, sometimes, an ignored absent one)"""
    crits = dm["criteria"]
    cls = cls or rng.choice(BYCRIT)
    for _ in range(30):
        keys = rng.sample(crits, min(len(crits), rng.choice([1, 1, 2])))
        rng.shuffle(keys)
        conds = []
        for c in keys:
            col = [row[crits.index(c)] for row in dm["matrix"]]
            if cls in ARITH:
                v = _threshold(rng, col)
            elif cls in ("In", "NotIn"):
                v = [_threshold(rng, col) for _ in range(rng.randint(1, 3))]
            else:
                v = [rng.choice(["gt", "ge", "lt", "le", "ne"]), float(_threshold(rng, col)),
                     rng.choice(["bool", "bool", "where", "astype", "uint8", "float"])]
            conds.append([c, v])
        ignore = rng.random() < 0.4
        if ignore and rng.random() < 0.5:
            conds.insert(rng.randrange(len(conds) + 1), ["no_such_criterion", conds[0][1]])
        spec = {"k": "filter", "cls": cls, "conds": conds, "ignore": ignore}
        if keep_at_least == 0 or len(_survivors(dm, spec)) >= keep_at_least:
            return spec
    return None


def _sat(cls, x, v):
    x = C.F(x)
    if cls in ARITH:
        t = C.F(v)
        return {"GT": x > t, "GE": x >= t, "LT": x < t, "LE": x <= t, "EQ": x == t, "NE": x != t}[cls]
    if cls == "In":
        return any(x == C.F(u) for u in v)
    if cls == "NotIn":
        return all(x != C.F(u) for u in v)
    if v[0] == "id":  # the criterion itself is the mask: non-zero = keep
        return x != 0
    return _sat(v[0].upper(), x, v[1])


def _fn_mask_case(rng, form, dtypes, nk):
    """a function-based `Filter` over exactly `nk` present criteria; the callable of the first one answers with a mask of
    the given form, the others with any form. `indicator` turns the criterion into a 0/1 column used as `lambda e: e`."""
    dm = _dm(rng, positive=rng.random() < 0.6, min_m=3 if rng.random() < 0.9 else 1, min_n=nk, dtypes=dtypes)
    crits, m = dm["criteria"], len(dm["matrix"])
    keys = rng.sample(crits, nk)
    conds = []
    for i, c in enumerate(keys):
        j = crits.index(c)
        f = form if i == 0 else rng.choice(MASK_FORMS)
        if f == "indicator":
            col = [rng.randint(0, 1) for _ in range(m)]
            if m >= 2 and len(set(col)) == 1:
                col[rng.randrange(m)] = 1 - col[0]
            for r, x in zip(dm["matrix"], col):
                r[j] = x if dm["dtypes"][j] == "int64" else float(x)
            conds.append([c, ["id", 0.0, "indicator"]])
        else:
            col = [row[j] for row in dm["matrix"]]
            conds.append([c, [rng.choice(["gt", "ge", "lt", "le", "ne"]), float(_threshold(rng, col)), f]])
    ignore = rng.random() < 0.4
    if ignore and rng.random() < 0.5:  # an absent criterion is skipped: still `nk` conditions in use
        conds.insert(rng.randrange(len(conds) + 1), ["no_such_criterion", conds[0][1]])
    return dm, {"k": "filter", "cls": "Fn", "conds": conds, "ignore": ignore}


def _fn_mask_cases(rng, rounds):
    """every mask form x {all-int, all-float, mixed} matrix x {one, two-or-more} criteria"""
    out = []
    for _ in range(rounds):
        for form in MASK_FORMS:
            for dtypes in ("int", "float", "mixed"):
                for nk in (1, 1, rng.choice([2, 2, 3])):
                    dm, spec = _fn_mask_case(rng, form, dtypes, nk)
                    out.append({"dm": dm, "steps": [spec], "pipe": rng.random() < 0.33})
    return out


def _survivors(dm, spec):
    crits = dm["criteria"]
    keep = []
    for i, row in enumerate(dm["matrix"]):
        if all(_sat(spec["cls"], row[crits.index(c)], v) for c, v in spec["conds"] if c in crits):
            keep.append(i)
    return keep


def _user_spec(rng, mode="same"):
    k = rng.choice([0, 1, 1, 2, 2, 3, 6])
    returns = rng.sample(PARTS, k)
    if rng.random() < 0.4:
        returns.append("hparams")
    rng.shuffle(returns)
    return {"k": "user", "returns": returns, "dtypes_none": rng.random() < 0.5, "mode": mode,
            "style": rng.choice(["named", "kwargs"]), "shift": rng.choice([0.25, 1.0, 3.5])}


def _single(rng, kind, cls=None, target=None):
    """one step + a matrix inside its domain"""
    if kind == "scaler":
        cls = cls or rng.choice(SWITCH)
        target = target or rng.choice(TARGETS)
        free = cls in ("StandarScaler", "MinMaxScaler", "MaxAbsScaler", "MaxScaler", "PushNegatives", "AddValueToZero")
        signed = free and rng.random() < 0.5
        dm = _dm(rng, positive=not signed, zeros=free and rng.random() < 0.4, min_m=2 if rng.random() < 0.9 else 1)
        return dm, {"k": "scaler", "cls": cls, "target": target, "params": _scaler_params(rng, cls)}
    if kind == "cenit":
        return _dm(rng, min_m=2, positive=rng.random() < 0.6), {"k": "cenit", "cls": cls or rng.choice(CENIT)}
    if kind == "weighter":
        cls = cls or rng.choice(WEIGHTERS)
        dm = _dm(rng, min_m=3, min_n=2 if cls in ("CRITIC", "Critic") else 1, positive=True)
        return dm, {"k": "weighter", "cls": cls, "params": _weighter_params(rng, cls)}
    if kind == "inverter":
        cls = cls or rng.choice(INVERTERS)
        dm = _dm(rng, positive=(cls != "NegateMinimize") or rng.random() < 0.5, mix=rng.choice(["mixed", "mixed", "min", "max"]))
        return dm, {"k": "inverter", "cls": cls}
    if kind == "filter":
        dm = _dm(rng, positive=rng.random() < 0.6)
        return dm, _filter_spec(rng, dm, cls)
    if kind == "nondom":
        return _dm(rng, positive=rng.random() < 0.6, min_m=2), {"k": "nondom", "strict": rng.random() < 0.5}
    if kind == "imputer":
        cls = cls or rng.choice(IMPUTERS)
        dm = _dm(rng, min_m=4, nan=rng.random() < 0.85, dtypes=rng.choice(["mixed", "float", "float"]))
        return dm, {"k": "imputer", "cls": cls, "params": _imputer_params(rng, cls)}
    if kind == "user":
        return _dm(rng, positive=rng.random() < 0.6), _user_spec(rng, mode=rng.choice(["same", "same", "change"]))
    raise KeyError(kind)


def _pipeline(rng):
    """1-4 steps over one matrix, each step inside its domain given what the earlier steps can do"""
    dm = _dm(rng, positive=True, min_m=4, min_n=2)
    k = rng.randint(1, 4)
    pos, wpos, orig, filtered, allmax = True, True, True, False, all(o == 1 for o in dm["objectives"])
    steps = []
    for _ in range(k):
        for _try in range(40):
            kind = rng.choice(["scaler", "scaler", "scaler", "cenit", "weighter", "weighter", "inverter", "filter", "nondom",
                               "imputer", "user", "user"])
            if kind == "scaler":
                cls, t = rng.choice(SWITCH), rng.choice(TARGETS)
                if cls in ("SumScaler", "VectorScaler") and ((t != "weights" and not pos) or (t != "matrix" and not wpos)):
                    continue
                steps.append({"k": "scaler", "cls": cls, "target": t, "params": _scaler_params(rng, cls)})
                if t != "weights":
                    orig = False
                    if cls in ("StandarScaler", "MinMaxScaler"):
                        pos = False
                if t != "matrix" and cls in ("StandarScaler", "MinMaxScaler"):
                    wpos = False
            elif kind == "cenit":
                if filtered:
                    continue
                steps.append({"k": "cenit", "cls": rng.choice(CENIT)})
                pos, orig = False, False
            elif kind == "weighter":
                cls = rng.choice(WEIGHTERS)
                if cls != "EqualWeighter" and (filtered or not orig):
                    continue
                steps.append({"k": "weighter", "cls": cls, "params": _weighter_params(rng, cls)})
                wpos = cls in ("EqualWeighter", "StdWeighter")
            elif kind == "inverter":
                cls = rng.choice(INVERTERS)
                if cls != "NegateMinimize" and not (pos or allmax):
                    continue
                steps.append({"k": "inverter", "cls": cls})
                if not allmax:
                    orig = False
                    if cls == "NegateMinimize":
                        pos = False
                allmax = True
            elif kind == "filter":
                if not orig or filtered:
                    continue
                spec = _filter_spec(rng, dm, keep_at_least=3)
                if spec is None:
                    continue
                steps.append(spec)
                filtered = True
            elif kind == "nondom":
                if not orig:
                    continue
                steps.append({"k": "nondom", "strict": rng.random() < 0.5})
                filtered = True
            elif kind == "imputer":
                cls = rng.choice(IMPUTERS)
                steps.append({"k": "imputer", "cls": cls, "params": _imputer_params(rng, cls)})
            else:
                spec = _user_spec(rng, mode="same")
                steps.append(spec)
                if "weights" in spec["returns"]:
                    wpos = True
                if "matrix" in spec["returns"]:
                    orig = False
            break
    return {"dm": dm, "steps": steps, "pipe": True}


def _every_builtin(rng):
    """one case per built-in class x target"""
    out = []
    for cls in SWITCH:
        for t in TARGETS:
            out.append(_single(rng, "scaler", cls, t))
    for cls in CENIT:
        out.append(_single(rng, "cenit", cls))
    for cls in WEIGHTERS:
        out.append(_single(rng, "weighter", cls))
    for cls in INVERTERS:
        out.append(_single(rng, "inverter", cls))
    for cls in BYCRIT:
        out.append(_single(rng, "filter", cls))
    out.append(_single(rng, "nondom"))
    for cls in IMPUTERS:
        out.append(_single(rng, "imputer", cls))
    return [{"dm": dm, "steps": [spec], "pipe": rng.random() < 0.33} for dm, spec in out]


def _empty_criterion_cases(rng):
    """every imputer x keep_empty_criteria in {False (the default), True} on a matrix with a criterion (sometimes two) whose
    values are ALL missing; the other criteria are complete or have some missing cells"""
    out = []
    for cls in IMPUTERS:
        for keep in (False, True):
            dm = _dm(rng, min_m=4, min_n=rng.choice([1, 2, 2, 3]), nan=rng.random() < 0.5, dtypes=rng.choice(["mixed", "float", "float"]))
            n = len(dm["criteria"])
            for j in rng.sample(range(n), 1 if n < 3 or rng.random() < 0.7 else 2):
                dm["dtypes"][j] = "float64"
                for row in dm["matrix"]:
                    row[j] = None
            params = dict(_imputer_params(rng, cls))
            params.pop("keep_empty_criteria", None)
            if keep or rng.random() < 0.5:  # False: half of the time left to the default
                params["keep_empty_criteria"] = keep
            out.append({"dm": dm, "steps": [{"k": "imputer", "cls": cls, "params": params}], "pipe": rng.random() < 0.33})
    return out


SEQ_HOW = ["weight-nudge", "cell-nudge", "both-nudge", "clear", "clear-weights", "same"]


def _second_dm(rng, dm, how):
    """a second matrix with the same labels, objectives and dtypes whose weights / values differ slightly (one weight
    + 3e-9, one cell x (1 + 1e-7)) or clearly"""
    d2 = dict(dm, matrix=[list(r) for r in dm["matrix"]], weights=list(dm["weights"]))
    m, n = len(d2["matrix"]), len(d2["criteria"])
    cells = [(i, j) for i in range(m) for j in range(n) if dm["dtypes"][j] == "float64" and d2["matrix"][i][j] not in (None, 0, 0.0)]
    if how in ("cell-nudge", "both-nudge") and not cells:
        how = "weight-nudge"
    if how in ("weight-nudge", "both-nudge"):
        j = rng.randrange(n)
        d2["weights"][j] = d2["weights"][j] + 3e-9
    if how in ("cell-nudge", "both-nudge"):
        i, j = rng.choice(cells)
        d2["matrix"][i][j] = d2["matrix"][i][j] * (1 + 1e-7)
    if how in ("clear", "clear-weights"):
        j = rng.randrange(n)
        d2["weights"][j] = d2["weights"][j] * 1.5 + 0.25
    if how == "clear":
        i, j = rng.randrange(m), rng.randrange(n)
        if d2["matrix"][i][j] is not None:
            d2["matrix"][i][j] = d2["matrix"][i][j] + 1
    return d2, how


def _sequence_cases(rng, n_pipe, n_single):
    """ONE transformer / pipeline object applied consecutively to two matrices (each output is judged against its own input)"""
    out = []
    for _ in range(n_pipe):
        c = _pipeline(rng)
        c["dm2"], c["seq"] = _second_dm(rng, c["dm"], rng.choice(SEQ_HOW[:5] if rng.random() < 0.9 else SEQ_HOW))
        out.append(c)
    kinds = ["scaler", "scaler", "scaler", "cenit", "weighter", "weighter", "inverter", "filter", "nondom", "imputer", "user", "user"]
    for _ in range(n_single):
        dm, spec = _single(rng, rng.choice(kinds))
        if spec is None:
            continue
        c = {"dm": dm, "steps": [spec], "pipe": rng.random() < 0.5}
        c["dm2"], c["seq"] = _second_dm(rng, dm, rng.choice(SEQ_HOW[:5] if rng.random() < 0.9 else SEQ_HOW))
        out.append(c)
    return out


# values an inversion maps to themselves: 1/x on 1 and -1, -x on 0 (0.0 and -0.0 compare equal)
FIXED_FORMS = {"InvertMinimize": ["ones", "pm-ones", "minus-ones"], "MinimizeToMaximize": ["ones", "pm-ones", "minus-ones"],
               "NegateMinimize": ["zeros", "signed-zeros"]}
FIXED_WHICH = ["every-criterion", "every-minimise", "some-minimise"]
SHAPES = ["alone", "alone-in-pipeline", "pipeline"]
WEIGHT_SCALERS = ["MaxAbsScaler", "MaxScaler", "SumScaler", "VectorScaler", "PushNegatives", "AddValueToZero"]


def _fixed_value(rng, form, dt):
    if form in ("ones", "minus-ones", "pm-ones"):
        x = {"ones": 1, "minus-ones": -1, "pm-ones": rng.choice([1, -1])}[form]
        return x if dt == "int64" else float(x)
    if dt == "int64":
        return 0
    return rng.choice([0.0, -0.0]) if form == "signed-zeros" else 0.0


def _weight_only_step(rng, statistical=False):
    """a step that leaves the matrix alone whatever the matrix holds (positive weights stay positive and finite)"""
    kind = rng.choice(["equal", "scaler", "scaler", "user"] + (["stat", "stat", "stat"] if statistical else []))
    if kind == "equal":
        return {"k": "weighter", "cls": "EqualWeighter", "params": _weighter_params(rng, "EqualWeighter")}
    if kind == "stat":
        cls = rng.choice(WEIGHTERS[1:])
        return {"k": "weighter", "cls": cls, "params": _weighter_params(rng, cls)}
    if kind == "scaler":
        cls = rng.choice(WEIGHT_SCALERS)
        return {"k": "scaler", "cls": cls, "target": "weights", "params": _scaler_params(rng, cls)}
    spec = _user_spec(rng, mode="same")
    spec["returns"] = [r for r in spec["returns"] if r != "matrix"]
    return spec


def _fixed_point_case(rng, cls, form, which, shape):
    """an objective inverter over a matrix where minimise criteria hold only values the inversion maps to themselves"""
    dm = _dm(rng, positive=(cls != "NegateMinimize") or rng.random() < 0.5, min_m=1 if rng.random() < 0.15 else 2,
             min_n=2 if which == "some-minimise" else 1)
    n, m = len(dm["criteria"]), len(dm["matrix"])
    if which == "every-criterion":  # the inversion changes no number at all
        obj, fixed = [-1] * n, list(range(n))
    else:
        k = rng.randint(2 if which == "some-minimise" else 1, n)
        mins = sorted(rng.sample(range(n), k))
        obj = [-1 if j in mins else 1 for j in range(n)]
        fixed = mins if which == "every-minimise" else sorted(rng.sample(mins, rng.randint(1, k - 1)))
    dm["objectives"] = obj
    for j in fixed:
        col = [_fixed_value(rng, form, dm["dtypes"][j]) for _ in range(m)]
        if form == "pm-ones" and m >= 2 and len(set(col)) == 1:
            col[rng.randrange(m)] = -col[0]
        for row, x in zip(dm["matrix"], col):
            row[j] = x
    inv = {"k": "inverter", "cls": cls}
    steps = [inv]
    if shape == "pipeline":
        before = [_weight_only_step(rng) for _ in range(rng.randint(0, 2))]
        after = []
        for _ in range(rng.randint(0 if before else 1, 2)):
            r = rng.random()
            if r < 0.4:
                after.append(_weight_only_step(rng))
            elif r < 0.6:  # every objective is maximise by now: any inverter is inside its domain
                after.append({"k": "inverter", "cls": rng.choice(INVERTERS)})
            elif r < 0.8:
                c2 = rng.choice(["PushNegatives", "AddValueToZero"])
                after.append({"k": "scaler", "cls": c2, "target": rng.choice(["matrix", "both"]), "params": _scaler_params(rng, c2)})
            else:
                after.append(_user_spec(rng, mode="same"))
        steps = before + [inv] + after
    return {"dm": dm, "steps": steps, "pipe": shape != "alone", "fixed_point": [cls, form, which, shape]}


def _fixed_point_cases(rng, rounds):
    """every inverter x every self-mapped value form x {every criterion, every minimise one, some of them} x shape"""
    return [_fixed_point_case(rng, cls, form, which, shape) for _ in range(rounds) for cls in INVERTERS
            for form in FIXED_FORMS[cls] for which in FIXED_WHICH for shape in SHAPES]


def _bigint_dm(rng, dt, positive):
    """an all-int64 / all-uint64 matrix (>= 3 alternatives, >= 2 criteria, no criterion constant - not even after a
    conversion to float64) where one or more criteria hold odd values of magnitude above 2**53"""
    top = 63 if dt == "uint64" else 62
    m, n = rng.randint(3, 7), rng.randint(2, 5)
    big = set(rng.sample(range(n), rng.randint(1, n)))
    cols = []
    for j in range(n):
        while True:
            if j in big:
                e0, col = rng.randint(53, top), []
                for _ in range(m):
                    e = e0 if rng.random() < 0.7 else rng.randint(53, top)
                    col.append(2 ** e + rng.randrange(1, 2 ** (e - 20), 2))  # odd and above 2**53: not a float64
                if dt == "int64" and not positive and rng.random() < 0.5:
                    col = [-v if rng.random() < 0.6 else v for v in col]
            else:
                col = [rng.randint(1 if positive else -16, 40) for _ in range(m)]
            for i in range(1, m):
                if rng.random() < 0.15:
                    col[i] = col[rng.randrange(i)]
            if len({float(v) for v in col}) > 1:
                break
        cols.append(col)
    return {
        "matrix": [[cols[j][i] for j in range(n)] for i in range(m)],
        "dtypes": [dt] * n,
        "exact_int": True,  # build_dm: straight into an integer array, never through float
        "objectives": G.objectives(rng, n),
        "weights": G.weights(rng, n, "dyadic"),
        "alternatives": G.labels(rng, G.LABEL_POOL_ALT, m),
        "criteria": G.labels(rng, G.LABEL_POOL_CRIT, n),
        "family": "beyond-2**53",
    }


def _bigint_cases(rng, rounds):
    """every weighter x {int64, uint64} x {alone, alone in a pipeline, among 2-4 weight-only steps}"""
    out = []
    for _ in range(rounds):
        for cls in WEIGHTERS:
            for dt in ("int64", "uint64"):
                for shape in SHAPES:
                    first = {"k": "weighter", "cls": cls, "params": _weighter_params(rng, cls)}
                    steps = [first]
                    if shape == "pipeline":
                        steps += [_weight_only_step(rng, statistical=True) for _ in range(rng.randint(1, 3))]
                        rng.shuffle(steps)
                    entropy = any(s.get("cls") == "EntropyWeighter" for s in steps)
                    dm = _bigint_dm(rng, dt, positive=entropy or dt == "uint64" or rng.random() < 0.5)
                    out.append({"dm": dm, "steps": steps, "pipe": shape != "alone", "beyond_float": [cls, dt, shape]})
    return out


def _nonfinite_filter_case(rng, cls, shape, what):
    """a by-criteria filter over a matrix where rows that SURVIVE hold NaN / +inf / -inf cells in criteria the filter does
    not look at (sometimes also in one it looks at, and in dropped rows). The cells are written None / "inf" / "-inf"."""
    spec = None
    for _ in range(60):
        dm = _dm(rng, positive=rng.random() < 0.6, min_m=4, min_n=3, dtypes=rng.choice(["mixed", "mixed", "float"]))
        if cls in ("EQ", "In") or rng.random() < 0.4:  # more ties inside the criteria: EQ / In keep several rows
            for row_i in range(1, len(dm["matrix"])):
                for j in range(len(dm["criteria"])):
                    if rng.random() < 0.45:
                        dm["matrix"][row_i][j] = dm["matrix"][rng.randrange(row_i)][j]
        spec = _filter_spec(rng, dm, cls, keep_at_least=2)
        if spec is not None:
            break
    if spec is None:
        return None
    crits, m = dm["criteria"], len(dm["matrix"])
    looked = [crits.index(c) for c, _ in spec["conds"] if c in crits]
    free = [j for j in range(len(crits)) if j not in looked]
    surv = _survivors(dm, spec)  # decided on the finite cells of the criteria the filter looks at
    dropped = [i for i in range(m) if i not in surv]
    pool = {"nan": [None], "inf": ["inf", "-inf"], "both": [None, "inf", "-inf"]}[what]
    first = [None, rng.choice(["inf", "-inf"])] if what == "both" else []
    rng.shuffle(first)

    def put(i, j):
        if dm["dtypes"][j] != "float64":  # NaN / inf live in float64 criteria
            dm["dtypes"][j] = "float64"
            for r in dm["matrix"]:
                r[j] = float(r[j])
        dm["matrix"][i][j] = first.pop() if first else rng.choice(pool)

    j0 = rng.choice(free)
    for j in [j0] + [j for j in free if j != j0 and rng.random() < 0.5]:
        # at least one surviving row gets such a cell, and one keeps a finite value (a later imputer has something to read)
        for i in rng.sample(surv, rng.randint(1, len(surv) - 1)):
            put(i, j)
        for i in dropped:
            if rng.random() < 0.3:
                put(i, j)
    if shape != "then-imputer" and rng.random() < 0.3:  # ... and one in a criterion the filter compares
        put(rng.randrange(m), rng.choice(looked) if looked else j0)
    steps = [spec]
    if shape == "then-imputer":
        icls = rng.choice(IMPUTERS)
        steps = [spec] + ([_weight_only_step(rng)] if rng.random() < 0.3 else []) + [{"k": "imputer", "cls": icls, "params": _imputer_params(rng, icls)}]
    elif shape == "among-weight-steps":
        before = [_weight_only_step(rng) for _ in range(rng.randint(0, 2))]
        after = [_weight_only_step(rng) for _ in range(rng.randint(0 if before else 1, 2))]
        steps = before + [spec] + after
    dm["family"] = "non-finite-cells"
    return {"dm": dm, "steps": steps, "pipe": shape != "alone", "stagewise": len(steps) > 1, "nonfinite": [cls, shape, what]}


def _nonfinite_filter_cases(rng, rounds):
    """every by-criteria filter class x shape x kind of non-finite cell (an imputer refuses inf: NaN only before one)"""
    out = []
    for _ in range(rounds):
        for cls in BYCRIT:
            for shape in NF_SHAPES:
                for what in (["nan"] if shape == "then-imputer" else NF_WHAT):
                    c = _nonfinite_filter_case(rng, cls, shape, what)
                    if c is not None:
                        out.append(c)
    return out


def _nonstring_labels(rng, k, kind):
    """k distinct labels of one non-string kind, none of them equal to a position 0..k-1; floats are dyadic (exact in float32)"""
    if kind in ("int", "int32", "int64", "uint16"):
        return G.int_labels(rng, k, rng.choice([1000, 2000, 40000] if kind == "uint16" else [1000, 2000, 10 ** 6]))
    base = rng.choice([0, 1000, 2000])
    fracs = [0.5, 0.25, 0.125, 0.75] if base == 0 or rng.random() < 0.6 else [0.0]  # 2019.0 is a label too
    return [float(base + i) + rng.choice(fracs) for i in rng.sample(range(0, max(k, 1) * 3), k)]


def _relabel(rng, case, which):
    """give the case's matrix alternatives and / or criteria that are not strings"""
    dm = case["dm"]
    byc = [s for s in case["steps"] if s["k"] == "filter"]
    if byc and which != "alternatives":
        # the keys of a by-criteria filter must be strings: numeric criteria only when the filter tolerates finding none
        which = which if all(s["ignore"] for s in byc) and rng.random() < 0.5 else "alternatives"
    kinds = {}
    for part in (["alternatives", "criteria"] if which == "both" else [which]):
        kind = rng.choice(LABEL_KINDS)
        dm[part] = _nonstring_labels(rng, len(dm[part]), kind)
        kinds[part] = [kind, rng.choice(["list", "array"])]
    dm["label_kinds"] = kinds
    case["nonstring_labels"] = sorted("%s:%s" % (p, k[0]) for p, k in kinds.items())
    return case


def _nonstring_label_cases(rng, rounds, n_pipe, n_user):
    """every built-in class x target (rounds times), pipelines and user transformers over non-string labels"""
    out = []
    which = ["alternatives", "criteria", "both"]
    for r in range(rounds):
        for i, c in enumerate(_every_builtin(rng)):
            out.append(_relabel(rng, c, which[(r + i) % 3]))
    for i in range(n_pipe):
        out.append(_relabel(rng, _pipeline(rng), which[i % 3]))
    for i in range(n_user):
        dm, spec = _single(rng, "user")
        out.append(_relabel(rng, {"dm": dm, "steps": [spec], "pipe": rng.random() < 0.33}, which[i % 3]))
    return out


# matrix-only classes: the only part they declare is the matrix (scalers with target='matrix', the two cenit-distance
# classes, the imputers)
CONST_WHICH = ["one-criterion", "some-criteria", "single-alternative"]


def _matrix_only_step(rng, cls=None):
    cls = cls or rng.choice(CENIT + SWITCH)
    if cls in CENIT:
        return {"k": "cenit", "cls": cls}
    if cls in IMPUTERS:
        return {"k": "imputer", "cls": cls, "params": _imputer_params(rng, cls)}
    return {"k": "scaler", "cls": cls, "target": "matrix", "params": _scaler_params(rng, cls)}


def _constant_criterion_case(rng, cls, which, shape):
    """a matrix-only transformer over a matrix in which one / several / all criteria hold ONE value for every alternative
    (a single-alternative matrix: all of them), each with its usual non-zero weight. What the step makes of such a column
    (0/0 included) is its own business - it declares the matrix; weights and objectives must come back bit-identical."""
    imputer = cls in IMPUTERS
    signed = cls in ("StandarScaler", "MinMaxScaler", "MaxAbsScaler", "MaxScaler", "PushNegatives", "AddValueToZero") and rng.random() < 0.4
    if which == "single-alternative":
        dm = _dm(rng, m=1, positive=not signed)
    elif imputer:
        dm = _dm(rng, min_m=4, min_n=2, nan=rng.random() < 0.85, dtypes=rng.choice(["mixed", "float", "float"]))
    else:
        dm = _dm(rng, min_m=2, positive=not signed)
    m, n = len(dm["matrix"]), len(dm["criteria"])
    if which == "one-criterion":
        const = [rng.randrange(n)]
    elif imputer:  # one criterion keeps its spread (and its missing cells)
        const = sorted(rng.sample(range(n), rng.randint(1, n - 1)))
    else:
        const = sorted(rng.sample(range(n), rng.randint(1, n)))
    if m > 1:
        for j in const:
            seen = [row[j] for row in dm["matrix"] if row[j] is not None]
            v = rng.choice(seen) if seen else 1.0
            r = rng.random()
            if r < 0.15:  # every alternative at zero
                v = 0 if dm["dtypes"][j] == "int64" else 0.0
            elif r < 0.3 and not imputer and dm["dtypes"][j] == "float64":
                v = rng.choice([0.1, 0.3, 1 / 3, 2.7, 1e-3, 12345.678])  # not a dyadic number
            for row in dm["matrix"]:
                row[j] = v
    main = _matrix_only_step(rng, cls)
    steps = [main]
    if shape == "pipeline":
        before = [_weight_only_step(rng) if rng.random() < 0.5 else _matrix_only_step(rng) for _ in range(rng.randint(0, 1))]
        after = [_weight_only_step(rng) if rng.random() < 0.4 else _matrix_only_step(rng) for _ in range(rng.randint(0 if before else 1, 2))]
        steps = before + [main] + after
    dm["family"] = "constant-criterion"
    return {"dm": dm, "steps": steps, "pipe": shape != "alone", "stagewise": len(steps) > 1,
            "constant_criterion": [cls, which, shape, [dm["criteria"][j] for j in (const if m > 1 else range(n))]]}


def _constant_criterion_cases(rng, rounds):
    """every matrix-only class x {one, several / all criteria constant, a single alternative} x shape"""
    return [_constant_criterion_case(rng, cls, which, shape) for _ in range(rounds) for cls in CENIT + SWITCH + IMPUTERS
            for which in (CONST_WHICH[:2] if cls in IMPUTERS else CONST_WHICH) for shape in SHAPES]


# criteria of ONE numpy kind stored with different widths, the narrower one first: [narrow dtype, wide dtype, the largest
# whole number the narrow one holds (None: floats)]
WIDTH_PAIRS = [["float32", "float64", None], ["float32", "float64", None], ["int8", "int64", 127], ["int8", "int64", 127],
               ["int16", "int64", 2 ** 15 - 1], ["int32", "int64", 2 ** 31 - 1], ["uint8", "uint64", 255]]
WIDTH_BUILDS = ["mkdm-dtypes", "frame", "constructor"]
NOT_FLOAT32 = [0.1, 0.2, 0.3, 0.7, 1 / 3, 2 / 3, 1.1, 2.7, 10.01, 9.99, 0.001, 123.456]


def _fits_float32(v):
    return float(np.float32(v)) == v


def _width_dm(rng, pair, positive=True, min_m=3):
    """>= 3 alternatives x >= 2 criteria of one kind; the FIRST criterion is stored in the narrow dtype, at least one later
    one in the wide dtype and every wide criterion holds values the narrow dtype cannot hold (0.1, 1/3, arbitrary doubles
    for float64 after float32; whole numbers above the narrow maximum for int64 / uint64). No criterion is constant."""
    narrow, wide, top = pair
    m, n = rng.randint(min_m, 7), rng.randint(2, 5)
    dts = [narrow] + [rng.choice([narrow, wide, wide]) for _ in range(n - 1)]
    if wide not in dts:
        dts[rng.randrange(1, n)] = wide
    signed = not positive and not narrow.startswith("u")
    cols = []
    for j in range(n):
        while True:
            if top is None and dts[j] == narrow:
                col = [rng.randint(-16 if signed else 1, 40) / 8 for _ in range(m)]  # k/8: a float32 holds it
            elif top is None:
                col = [rng.choice(NOT_FLOAT32) * rng.choice([1, 1, 2, 8]) if rng.random() < 0.5 else G.value(rng, "float", True) for _ in range(m)]
                if signed:
                    col = [-v if rng.random() < 0.3 else v for v in col]
            elif dts[j] == narrow:
                col = [rng.randint(-min(top, 100) if signed else 1, min(top, 40 if rng.random() < 0.5 else top)) for _ in range(m)]
            else:
                hi = rng.choice([top * 4, 10 ** 6 + top, 2 ** 40])
                col = [rng.randint(top + 1, hi) for _ in range(m)]
                if rng.random() < 0.5:  # some cells small enough for the narrow dtype, the others not
                    col = [rng.randint(1, min(top, 100)) if rng.random() < 0.3 else v for v in col]
                    col[rng.randrange(m)] = rng.randint(top + 1, hi)
                if signed:
                    col = [-v if rng.random() < 0.3 else v for v in col]
            for i in range(1, m):
                if rng.random() < 0.15:
                    col[i] = col[rng.randrange(i)]
            if len(set(col)) > 1 and (dts[j] == narrow or top is not None or not all(_fits_float32(v) for v in col)) and \
                    (positive or top is None or dts[j] == narrow or any(abs(v) > top for v in col)):
                break
        cols.append(col)
    return {
        "matrix": [[cols[j][i] for j in range(n)] for i in range(m)],
        "dtypes": dts,
        # how build_dm makes it: mkdm(array, dtypes=[...]) / mkdm(DataFrame with per-column dtypes) / DecisionMatrix(DataFrame, ...)
        "build": rng.choice(WIDTH_BUILDS),
        "array_dtype": "float64" if top is None else wide,
        "objectives": G.objectives(rng, n, rng.choice(["max", "mixed", "mixed", "min"])),
        "weights": G.weights(rng, n, rng.choice(["dyadic", "float"])),
        "alternatives": G.labels(rng, G.LABEL_POOL_ALT, m),
        "criteria": G.labels(rng, G.LABEL_POOL_CRIT, n),
        "family": "same-kind-widths",
    }


# the steps that do not target the matrix: [kind, class]
NO_MATRIX_STEPS = ([["weighter", c] for c in WEIGHTERS] + [["scaler", c] for c in SWITCH] + [["nondom", True], ["nondom", False]]
                   + [["inverter", c] for c in INVERTERS] + [["user", "weights-only"], ["user", "subset"], ["filter", None]])


def _width_case(rng, kind, cls, pair, shape):
    """a step that does not target the matrix (a weighter, a weight-target scaler, FilterNonDominated, a by-criteria filter,
    an objective inverter - judged on the maximise criteria -, a user transformer that does not return the matrix) over
    criteria of one kind but different widths, the narrower first"""
    free = (kind, cls) in (("weighter", "EqualWeighter"), ("inverter", "NegateMinimize")) or kind in ("scaler", "nondom", "user", "filter")
    positive = not free or rng.random() < 0.6
    spec = None
    for _ in range(40):
        dm = _width_dm(rng, pair, positive=positive)
        if kind == "weighter":
            spec = {"k": "weighter", "cls": cls, "params": _weighter_params(rng, cls)}
        elif kind == "scaler":
            spec = {"k": "scaler", "cls": cls, "target": "weights", "params": _scaler_params(rng, cls)}
        elif kind == "nondom":
            spec = {"k": "nondom", "strict": cls}
        elif kind == "inverter":
            spec = {"k": "inverter", "cls": cls}
        elif kind == "user":
            spec = _user_spec(rng, mode="same")
            spec["returns"] = ["weights"] if cls == "weights-only" else [r for r in spec["returns"] if r != "matrix"]
        else:
            spec = _filter_spec(rng, dm, keep_at_least=2)
        if spec is not None:
            break
    if spec is None:
        return None
    steps = [spec]
    if shape == "pipeline":
        before = [_weight_only_step(rng, statistical=positive) for _ in range(rng.randint(0, 2))]
        after = [_weight_only_step(rng) for _ in range(rng.randint(0 if before else 1, 2))]
        steps = before + [spec] + after
    return {"dm": dm, "steps": steps, "pipe": shape != "alone", "stagewise": len(steps) > 1,
            "widths": ["%s+%s" % (pair[0], pair[1]), dm["build"], shape]}


def _width_cases(rng, rounds):
    """every step that does not target the matrix x {float32+float64, int8/16/32+int64, uint8+uint64} x shape; the way the
    matrix is built (mkdm with dtypes, mkdm of a DataFrame, the DecisionMatrix constructor) is drawn per case"""
    out = []
    for r in range(rounds):
        for i, (kind, cls) in enumerate(NO_MATRIX_STEPS):
            for k, shape in enumerate(SHAPES):
                for pair in (WIDTH_PAIRS[0], WIDTH_PAIRS[2], WIDTH_PAIRS[4 + (r + i + k) % 3]):
                    c = _width_case(rng, kind, cls, pair, shape)
                    if c is not None:
                        out.append(c)
    return out


# a callable of a function-based `Filter` that works IN PLACE on the criterion array it is given: what it does to the array
# and whether it does it before or after computing its mask
SCRIBBLES = ["clip", "center", "zero", "negate", "shift", "fill", "sort"]
SCRIBBLE_WHEN = ["scribble-then-mask", "mask-then-scribble"]
INPLACE_SHAPES = ["alone", "alone-in-pipeline", "among-weight-steps"]


def _scribble(e, how):
    """rewrite the array `e` in place (int64 and float64 arrays alike)"""
    do = how["do"]
    if do == "clip":
        np.clip(e, how["lo"], how["hi"], out=e)
    elif do == "center":
        e -= e.mean().astype(e.dtype)
    elif do == "zero":
        e *= 0
    elif do == "negate":
        np.negative(e, out=e)
    elif do == "shift":
        e += 1
    elif do == "fill":
        e.fill(e.max())
    elif do == "sort":
        e.sort()
    else:
        raise KeyError(do)


def _received(dm, j):
    """the criterion as a callable of `Filter` receives it: a column of the whole matrix (float64 unless every criterion is int64)"""
    return np.array([row[j] for row in dm["matrix"]], dtype=np.int64 if all(t == "int64" for t in dm["dtypes"]) else float)


def _inplace_fn_case(rng, do, dtypes, nk, shape):
    """a function-based `Filter` over `nk` criteria whose callables rewrite the array they are given; drawn (on copies) until
    a row that survives holds a cell a callable rewrote"""
    dm = spec = None
    for _ in range(60):
        dm = _dm(rng, positive=rng.random() < 0.6, zeros=rng.random() < 0.2, min_m=3, min_n=nk, dtypes=dtypes)
        crits, m = dm["criteria"], len(dm["matrix"])
        conds, keep, rewritten = [], np.ones(m, dtype=bool), np.zeros(m, dtype=bool)
        for i, c in enumerate(rng.sample(crits, nk)):
            e0 = _received(dm, crits.index(c))
            how = {"do": do if i == 0 else rng.choice(SCRIBBLES), "when": rng.choice(SCRIBBLE_WHEN)}
            if how["do"] == "clip":  # whole-number bounds: valid for int64 and float64 arrays
                lo, hi = sorted(int(np.floor(x)) for x in rng.sample(list(e0), 2))
                how["lo"], how["hi"] = lo, max(hi, lo + 1)
            e1 = e0.copy()
            _scribble(e1, how)
            seen = e1 if how["when"] == "scribble-then-mask" else e0  # what the mask is computed from
            v = [rng.choice(["gt", "ge", "lt", "le", "ne"]), float(_threshold(rng, [float(x) for x in seen])),
                 rng.choice(MASK_FORMS[:5]), how]
            conds.append([c, v])
            e = e0.copy()
            keep &= np.asarray(_mask_fn(v)(e)).astype(bool)
            rewritten |= e != e0
        if (keep & rewritten).any():
            when = conds[0][1][3]["when"]
            ignore = rng.random() < 0.3
            if ignore and rng.random() < 0.5:
                conds.insert(rng.randrange(len(conds) + 1), ["no_such_criterion", conds[0][1]])
            spec = {"k": "filter", "cls": "Fn", "conds": conds, "ignore": ignore}
            break
    if spec is None:
        return None
    steps = [spec]
    if shape == "among-weight-steps":
        before = [_weight_only_step(rng) for _ in range(rng.randint(0, 2))]
        after = [_weight_only_step(rng) for _ in range(rng.randint(0 if before else 1, 2))]
        steps = before + [spec] + after
    return {"dm": dm, "steps": steps, "pipe": shape != "alone", "stagewise": len(steps) > 1,
            "inplace_callable": [do, when, shape]}


def _inplace_fn_cases(rng, rounds):
    """every in-place operation x {all-int, all-float, mixed} matrix x shape; one or two criteria"""
    out = []
    for _ in range(rounds):
        for do in SCRIBBLES:
            for dtypes in ("int", "float", "mixed"):
                for shape in INPLACE_SHAPES:
                    c = _inplace_fn_case(rng, do, dtypes, rng.choice([1, 1, 2]), shape)
                    if c is not None:
                        out.append(c)
    return out


# negative cells under the steps that declare only the weights
NEG_WHICH = ["one-cell", "some-cells", "a-whole-criterion", "every-cell"]
WEIGHT_ONLY_MAINS = ([["weighter", c] for c in WEIGHTERS] + [["weighter", "EntropyWeighter"]] + [["scaler", c] for c in SWITCH])


def _negative_dm(rng, dtypes, which, min_n):
    """>= 3 alternatives, no criterion constant, with negative cells (whole numbers in int64 criteria, dyadic numbers or
    arbitrary doubles in float64 ones)"""
    dm = _dm(rng, positive=True, min_m=3, min_n=min_n, dtypes=dtypes)
    m, n = len(dm["matrix"]), len(dm["criteria"])
    cells = [(i, j) for i in range(m) for j in range(n)]
    if which == "one-cell":
        neg = [rng.choice(cells)]
    elif which == "some-cells":
        neg = rng.sample(cells, rng.randint(2, max(2, len(cells) // 2)))
    elif which == "a-whole-criterion":
        js = rng.sample(range(n), rng.randint(1, max(1, n - 1)))
        neg = [(i, j) for i in range(m) for j in js] + [c for c in cells if rng.random() < 0.1]
    else:
        neg = cells
    for i, j in set(neg):
        dm["matrix"][i][j] = -dm["matrix"][i][j]  # positive and distinct values: no criterion turns constant
    dm["family"] = "negative-cells"
    return dm


def _negative_weight_case(rng, kind, cls, dtypes, shape):
    which = rng.choice(NEG_WHICH)
    if kind == "weighter":
        main = {"k": "weighter", "cls": cls, "params": _weighter_params(rng, cls)}
    else:
        main = {"k": "scaler", "cls": cls, "target": "weights", "params": _scaler_params(rng, cls)}
    steps = [main]
    if shape == "pipeline":
        steps += [_weight_only_step(rng, statistical=True) for _ in range(rng.randint(1, 3))]
        rng.shuffle(steps)
    dm = _negative_dm(rng, dtypes, which, 2)
    return {"dm": dm, "steps": steps, "pipe": shape != "alone", "stagewise": len(steps) > 1,
            "negative_cells": [cls if kind == "weighter" else cls + "/weights", dtypes, which, shape]}


def _negative_weight_cases(rng, rounds):
    """every weighter (EntropyWeighter twice) and every weight-target scaler x {all-int, all-float, mixed} x shape"""
    return [_negative_weight_case(rng, kind, cls, dtypes, shape) for _ in range(rounds) for kind, cls in WEIGHT_ONLY_MAINS
            for dtypes in ("int", "float", "mixed") for shape in SHAPES]


def _random_cases(rng, n_sweeps, n_user, n_pipe, n_mask=1, n_seq=(60, 40), n_fixed=1, n_big=2, n_nonfinite=1, n_labels=(3, 30, 20), n_const=1, n_width=1, n_inplace=1, n_negative=1):
    cases = []
    for _ in range(n_sweeps):
        cases.extend(_every_builtin(rng))
        cases.extend(_empty_criterion_cases(rng))
    cases.extend(_sequence_cases(rng, *n_seq))
    cases.extend(_fn_mask_cases(rng, n_mask))
    cases.extend(_fixed_point_cases(rng, n_fixed))
    cases.extend(_bigint_cases(rng, n_big))
    for _ in range(n_user):
        dm, spec = _single(rng, "user")
        cases.append({"dm": dm, "steps": [spec], "pipe": rng.random() < 0.33})
    for _ in range(n_pipe):
        cases.append(_pipeline(rng))
    # fixed shares of every run (their own loops and counts): cells that are not finite under by-criteria filters, labels
    # that are not strings
    cases.extend(_nonfinite_filter_cases(rng, n_nonfinite))
    cases.extend(_nonstring_label_cases(rng, *n_labels))
    # ... a constant criterion under the matrix-only classes; criteria of one kind but different widths under the steps
    # that do not target the matrix
    cases.extend(_constant_criterion_cases(rng, n_const))
    cases.extend(_width_cases(rng, n_width))
    # ... callables that work in place on what they are given; weight-only steps over negative cells
    cases.extend(_inplace_fn_cases(rng, n_inplace))
    cases.extend(_negative_weight_cases(rng, n_negative))
    return cases


def gen(ctx):
    rng = ctx.rng
    return [{"table": True}] + _random_cases(rng, ctx.n(5, 70), ctx.n(70, 1000), ctx.n(110, 1600), ctx.n(2, 20),
                                             (ctx.n(70, 900), ctx.n(50, 600)), ctx.n(2, 12), ctx.n(3, 20), ctx.n(1, 8),
                                             (ctx.n(3, 24), ctx.n(30, 300), ctx.n(20, 200)), ctx.n(2, 12), ctx.n(2, 10), ctx.n(2, 10), ctx.n(2, 8))


def search_gen(ctx):
    return _random_cases(ctx.rng, 12, 150, 250, 3, (150, 100), 3, 4, 2, (6, 60, 40), 3, 3, 3, 3)


# --------------------------------------------------------------------------- implementation side

_FN = {
    "gt": lambda t: (lambda e: e > t), "ge": lambda t: (lambda e: e >= t), "lt": lambda t: (lambda e: e < t),
    "le": lambda t: (lambda e: e <= t), "ne": lambda t: (lambda e: e != t),
    "id": lambda t: (lambda e: e),
}


def _mask_fn(v):
    """the callable of a function-based filter: [op, threshold] (boolean) or [op, threshold, mask form]"""
    cond = _FN[v[0]](v[1])
    form = v[2] if len(v) > 2 else "bool"
    if form in ("bool", "indicator"):
        mask = cond
    elif form == "where":
        mask = lambda e: np.where(cond(e), 1, 0)  # noqa: E731
    else:
        to = {"astype": int, "uint8": np.uint8, "float": float}[form]
        mask = lambda e: cond(e).astype(to)  # noqa: E731
    how = v[3] if len(v) > 3 else None
    if not how:
        return mask

    def inplace(e):  # a callable that works IN PLACE on the array it is given, before or after it computes its mask
        if how["when"] == "scribble-then-mask":
            _scribble(e, how)
            return mask(e)
        out = np.array(mask(e), copy=True)
        _scribble(e, how)
        return out

    return inplace


_CELL = {None: np.nan, "inf": np.inf, "-inf": -np.inf}  # how a case writes the cells JSON has no number for


def _labels_in(d, part):
    """the labels handed to mkdm: strings as they are; non-string ones as python numbers or numpy scalars of the kind the
    case names, in a list or in an array"""
    kind = (d.get("label_kinds") or {}).get(part)
    vals = list(d[part])
    if not kind:
        return vals
    k, form = kind
    to = {"int": int, "float": float}.get(k) or getattr(np, k)
    vals = [to(v) for v in vals]
    return np.array(vals) if form == "array" else vals


def build_dm(d):
    import warnings

    import skcriteria as skc

    if d.get("build") in ("frame", "constructor"):
        # criteria stored column by column, each with its own dtype, in a pandas DataFrame
        import pandas as pd

        from skcriteria.core.data import DecisionMatrix

        frame = pd.DataFrame({c: np.array([row[j] for row in d["matrix"]], dtype=np.dtype(d["dtypes"][j]))
                              for j, c in enumerate(d["criteria"])}, index=list(d["alternatives"]))
        with warnings.catch_warnings():
            warnings.simplefilter("ignore")
            if d["build"] == "constructor":
                return DecisionMatrix(frame, list(d["objectives"]), np.array(d["weights"], dtype=float))
            return skc.mkdm(frame, list(d["objectives"]), weights=np.array(d["weights"], dtype=float),
                            alternatives=list(frame.index), criteria=list(frame.columns))
    if d.get("exact_int"):  # whole numbers float64 cannot hold: straight into the integer array
        arr = np.array(d["matrix"], dtype=np.dtype(d["dtypes"][0]))
    elif d.get("array_dtype"):
        arr = np.array(d["matrix"], dtype=np.dtype(d["array_dtype"]))
    else:
        arr = np.array([[_CELL[x] if x is None or isinstance(x, str) else x for x in row] for row in d["matrix"]], dtype=float)
    with warnings.catch_warnings():
        warnings.simplefilter("ignore")
        return skc.mkdm(arr, list(d["objectives"]), weights=np.array(d["weights"], dtype=float),
                        alternatives=_labels_in(d, "alternatives"), criteria=_labels_in(d, "criteria"),
                        dtypes=[np.dtype(s) for s in d["dtypes"]])


def _sha(b):
    return hashlib.sha1(b).hexdigest()[:16]


def _mtok(M):
    M = np.asarray(M)
    Mf = np.ascontiguousarray(M, dtype=float) if M.dtype != object else None
    return {
        "shape": list(M.shape), "dtype": str(M.dtype), "hex": _sha(np.ascontiguousarray(M).tobytes()),
        "rows": [_sha(np.ascontiguousarray(r).tobytes()) for r in M] if M.ndim == 2 else [],
        "cols": [_sha(np.ascontiguousarray(Mf[:, j]).tobytes()) for j in range(M.shape[1])] if Mf is not None and M.ndim == 2 else [],
    }


def _wtok(w):
    w = np.asarray(w)
    return {"dtype": str(w.dtype), "n": int(w.shape[0]) if w.ndim else -1, "hex": _sha(np.ascontiguousarray(w).tobytes())}


def _lab(x):
    """a label with its type (G.lab): a string is itself, 2019 is `int:2019` - not '2019' -, 1.5 is `float64:...`"""
    return str(x) if isinstance(x, str) else G.lab(x)


def snapshot(dm):
    """the six parts of the matrix as tokens / plain lists: values, objectives, weights and dtypes from `dm.to_dict()`; the
    labels, WITH THEIR TYPES, from `dm.alternatives` / `dm.criteria` (what the user of the matrix reads)"""
    d = dm.to_dict()
    return {
        "matrix": _mtok(d["matrix"]),
        "objectives": [int(o) for o in d["objectives"]],
        "weights": _wtok(d["weights"]),
        "dtypes": [str(t) for t in d["dtypes"]],
        "alternatives": [_lab(a) for a in np.asarray(dm.alternatives)],
        "criteria": [_lab(c) for c in np.asarray(dm.criteria)],
    }


def _make_user(spec, idx, record):
    from skcriteria.extend import mktransformer

    returns = spec["returns"]
    change = spec["mode"] == "change"

    def body(matrix, objectives, weights, dtypes, alternatives, criteria, hparams):
        out = {}
        for key in returns:  # insertion order of the returned dict = the order written in the case
            if key == "matrix":
                out[key] = np.asarray(matrix, dtype=float) * 2
            elif key == "weights":
                out[key] = np.asarray(weights, dtype=float) * 0.5 + hparams.shift
            elif key == "objectives":
                out[key] = -np.asarray(objectives) if change else np.array(objectives, copy=True)
            elif key == "dtypes":
                out[key] = None if spec["dtypes_none"] else np.array(dtypes, copy=True)
            elif key == "alternatives":
                out[key] = np.array([str(a) + "'" for a in alternatives]) if change else np.array(alternatives, copy=True)
            elif key == "criteria":
                out[key] = np.array([str(c) + "'" for c in criteria]) if change else np.array(criteria, copy=True)
            elif key == "hparams":
                out[key] = hparams
        rec = {}
        for key, v in out.items():
            if key == "matrix":
                rec[key] = _mtok(v)["cols"]
            elif key == "weights":
                rec[key] = _wtok(v)["hex"]
            elif key == "objectives":
                rec[key] = [int(o) for o in v]
            elif key in ("alternatives", "criteria"):
                rec[key] = [_lab(x) for x in np.asarray(v)]
        record.append(rec)
        return out

    if spec["style"] == "named":
        def fn(matrix, objectives, weights, dtypes, alternatives, criteria, hparams):
            return body(matrix, objectives, weights, dtypes, alternatives, criteria, hparams)
    else:
        def fn(matrix, weights, hparams, **kwargs):
            return body(matrix, kwargs["objectives"], weights, kwargs["dtypes"], kwargs["alternatives"], kwargs["criteria"], hparams)
    fn.__name__ = fn.__qualname__ = "UserT%d" % idx
    return mktransformer(shift=spec["shift"])(fn)()


def build_step(spec, idx, record):
    from sklearn.experimental import enable_iterative_imputer  # noqa: F401

    from skcriteria.preprocessing import distance, filters, impute, increment, invert_objectives, push_negatives, scalers, weighters

    k = spec["k"]
    if k == "scaler":
        mod = {"PushNegatives": push_negatives, "AddValueToZero": increment}.get(spec["cls"], scalers)
        p = dict(spec["params"])
        if "criteria_range" in p:
            p["criteria_range"] = tuple(p["criteria_range"])
        return getattr(mod, spec["cls"])(spec["target"], **p)
    if k == "cenit":
        return getattr(distance if spec["cls"] == "CenitDistance" else scalers, spec["cls"])()
    if k == "weighter":
        return getattr(weighters, spec["cls"])(**spec["params"])
    if k == "inverter":
        return getattr(invert_objectives, spec["cls"])()
    if k == "nondom":
        return filters.FilterNonDominated(strict=spec["strict"])
    if k == "imputer":
        return getattr(impute, spec["cls"])(**spec["params"])
    if k == "filter":
        d = {}
        for c, v in spec["conds"]:
            if spec["cls"] in ARITH:
                d[c] = v
            elif spec["cls"] in ("In", "NotIn"):
                d[c] = list(v)
            else:
                d[c] = _mask_fn(v)
        klass = filters.Filter if spec["cls"] == "Fn" else getattr(filters, "Filter" + spec["cls"])
        return klass(d, ignore_missing_criteria=spec["ignore"])
    if k == "user":
        return _make_user(spec, idx, record)
    raise KeyError(k)


def in_domain(spec, parts):
    """is the input (a `to_dict()`) inside the numeric domain of the step? (hand-written from the docstrings)"""
    M = np.asarray(parts["matrix"], dtype=float)
    w = np.asarray(parts["weights"], dtype=float)
    o = np.asarray(parts["objectives"])
    if M.ndim != 2 or M.shape[0] < 1 or M.shape[1] < 1:
        return False
    m, n = M.shape
    k = spec["k"]
    if not np.isfinite(w).all():
        return False
    if k == "imputer":
        return m >= 2 and not np.isinf(M).any() and not np.isnan(M).all(axis=0).any()
    if k == "filter":  # a by-criteria filter only compares: no numeric domain (NaN / inf cells included)
        crits = [c for c in parts["criteria"] if isinstance(c, str)]
        return spec["ignore"] or all(c in crits for c, _ in spec["conds"])
    if not np.isfinite(M).all():
        return False
    nonconst = bool((M.max(axis=0) != M.min(axis=0)).all())
    if k == "scaler":
        cls, t = spec["cls"], spec["target"]
        if t != "weights":
            if cls == "SumScaler" and (M.sum(axis=0) == 0).any():
                return False
            if cls == "VectorScaler" and ((M ** 2).sum(axis=0) == 0).any():
                return False
        if t != "matrix":
            if cls == "SumScaler" and w.sum() == 0:
                return False
            if cls == "VectorScaler" and (w ** 2).sum() == 0:
                return False
        return True
    if k == "cenit":
        return m >= 2 and nonconst
    if k == "weighter":
        cls = spec["cls"]
        if cls == "EqualWeighter":
            return True
        if m < 3 or not nonconst:
            return False
        if cls == "EntropyWeighter":
            return bool((M > 0).all())
        if cls in ("CRITIC", "Critic"):
            return n >= 2
        return True
    if k == "inverter":
        return spec["cls"] == "NegateMinimize" or bool((M[:, o == -1] != 0).all())
    return True


def observe(case):
    import warnings

    if case.get("table"):
        import extract as X

        return {"rows": [[name, mod, fam, t, written, note] for name, mod, fam, t, written, note in X.transformer_rows_c10()]}
    with warnings.catch_warnings(record=True):  # the deprecated classes warn through an "always" filter
        warnings.simplefilter("ignore")
        with np.errstate(all="ignore"):
            return _observe(case)


def _observe(case):
    from skcriteria.agg.simple import WeightedSumModel
    from skcriteria.pipeline import mkpipe

    record, made = [], {}
    steps = [build_step(s, i, record) for i, s in enumerate(case["steps"])]
    use_pipe = case.get("pipe") or len(steps) != 1

    def transformer():  # ONE object for the whole case
        if "T" not in made:
            made["T"] = mkpipe(*steps, WeightedSumModel()) if use_pipe else steps[0]
        return made["T"]

    obs, res1 = _apply(transformer, case["dm"], case["steps"], record, stagewise=bool(case.get("stagewise")))
    if case.get("seq"):
        # the SAME object applied to a second matrix right afterwards
        obs["second"], res2 = _apply(transformer, case["dm2"], case["steps"], record)
        if res1 is not None and res2 is not None:
            obs["second"]["same_as_previous_output"] = res2 is res1
    return obs


def _stages(dm, specs):
    """every step applied BY ITSELF (a fresh object) to the output of the steps before it: one observation per step, each
    with its own input - the step of a pipeline is a transformer applied to a decision matrix too"""
    out, cur = [], dm
    for i, s in enumerate(specs):
        rec = []
        try:
            before = snapshot(cur)
            nxt = build_step(s, i, rec).transform(cur)
        except Exception as e:
            out.append({"err": G.err_name(e), "msg": str(e)[:200]})
            break
        out.append({"before": before, "after": snapshot(nxt), "same_object": nxt is cur, "input_after": snapshot(cur),
                    "user_returned": rec})
        cur = nxt
    return out


def _apply(transformer, d, specs, record, stagewise=False):
    dm = build_dm(d)
    before = snapshot(dm)
    n0 = len(record)
    obs = {"before": before}
    try:
        res = transformer().transform(dm)
    except Exception as e:
        obs["err"] = G.err_name(e)
        obs["msg"] = str(e)[:200]
        obs["input_after"] = snapshot(dm)
        # which step fails, and was its own input inside its domain?
        cur, failing, dom = dm, None, None
        record2 = []
        for i, s in enumerate(specs):
            dom = bool(in_domain(s, cur.to_dict()))
            try:
                cur = build_step(s, i, record2).transform(cur)
            except Exception:
                failing = i
                break
        obs["failing_step"] = failing
        obs["in_domain"] = bool(dom) if failing is not None else True
        return obs, None
    obs["after"] = snapshot(res)
    obs["same_object"] = res is dm
    obs["input_after"] = snapshot(dm)
    obs["user_returned"] = record[n0:]
    if stagewise:
        obs["stages"] = _stages(dm, specs)
    return obs, res


# --------------------------------------------------------------------------- model side


def _token(part, v):
    if part == "matrix":
        return "%s|%s|%s" % (v["shape"], v["dtype"], v["hex"])
    if part == "weights":
        return "%s|%s|%s" % (v["n"], v["dtype"], v["hex"])
    return "\x1f".join(str(x) for x in v)


def _model_step(spec):
    if spec["k"] == "user":
        return {"family": "user", "returned": [r for r in spec["returns"] if r != "hparams"]}
    if spec["k"] == "scaler":
        return {"family": "targetSwitch", "target": spec["target"]}
    return {"family": FAMILY[spec["k"]], "target": None}


def requests(case, obs):
    if case.get("table"):
        return [{"op": "c10_declared", "family": fam, "target": t} for _, _, fam, t, _, _ in obs["rows"]]
    return [{"op": "c10_frame", "steps": [_model_step(s) for s in case["steps"]],
             "before": [_token(p, o["before"][p]) for p in PARTS], "after": [_token(p, o["after"][p]) for p in PARTS]}
            for o in _applications(obs) if "err" not in o] + [
            {"op": "c10_frame", "steps": [_model_step(case["steps"][i])],
             "before": [_token(p, o["before"][p]) for p in PARTS], "after": [_token(p, o["after"][p]) for p in PARTS]}
            for i, o in enumerate(obs.get("stages", [])) if "err" not in o]


def _applications(obs):
    """the observation of every application of the case's one transformer object, in order"""
    return [obs] + ([obs["second"]] if "second" in obs else [])


# --------------------------------------------------------------------------- the property, from its text


def may_change(spec):
    """the parts (dtypes aside) the property text lets this transformer change"""
    k = spec["k"]
    if k == "scaler":  # "unless the transformer targets weights (weight-target scalers …) … unless it targets the matrix"
        return {"matrix": {"matrix"}, "weights": {"weights"}, "both": {"matrix", "weights"}}[spec["target"]]
    if k in ("cenit", "imputer"):
        return {"matrix"}
    if k == "weighter":
        return {"weights"}
    if k == "inverter":  # "Objectives change only under the objective inverters"
        return {"matrix", "objectives"}
    if k in ("filter", "nondom"):  # "except for filters, the same alternatives"; whole rows are dropped from the matrix
        return {"matrix", "alternatives"}
    if k == "user":  # "user transformers … that return a subset of the parts"
        return set(spec["returns"]) - {"hparams", "dtypes"}
    raise KeyError(k)


def _label(case):
    def one(s):
        k = s["k"]
        if k == "scaler":
            return "%s(%r%s)" % (s["cls"], s["target"], "".join(", %s=%r" % kv for kv in s["params"].items()))
        if k in ("weighter", "imputer"):
            return "%s(%s)" % (s["cls"], ", ".join("%s=%r" % kv for kv in s["params"].items()))
        if k == "filter":
            return "%s({%s}%s)" % ("Filter" if s["cls"] == "Fn" else "Filter" + s["cls"],
                                    ", ".join("%r: %r" % (c, v) for c, v in s["conds"]), ", ignore_missing_criteria=True" if s["ignore"] else "")
        if k == "nondom":
            return "FilterNonDominated(strict=%s)" % s["strict"]
        if k == "user":
            return "mktransformer(returns %s%s)" % (s["returns"], ", dtypes: None" if s["dtypes_none"] and "dtypes" in s["returns"] else "")
        return s["cls"] + "()"

    inner = ", ".join(one(s) for s in case["steps"])
    return "mkpipe(%s, WeightedSumModel())" % inner if case.get("pipe") or len(case["steps"]) != 1 else inner


def _subsequence_positions(sub, full):
    pos, j = [], 0
    for x in sub:
        while j < len(full) and full[j] != x:
            j += 1
        if j == len(full):
            return None
        pos.append(j)
        j += 1
    return pos


def judge(case, obs, replies):
    out = []
    if case.get("table"):
        for (name, mod, fam, t, written, note), rep in zip(obs["rows"], replies):
            outside = [w for w in written if w not in rep["parts"]]
            if outside:
                out.append({"kind": "correspondence",
                            "what": f"{mod}.{name}{'' if t is None else '(target=%r)' % t}._transform_data rewrites {outside}, which its family "
                                    f"`{fam}` does not declare" + (f" [{note}]" if note else ""),
                            "expected": rep["parts"], "observed": written})
        return out
    label = _label(case)
    apps = _applications(obs)
    reps = iter(replies)
    for k, o in enumerate(apps):
        lab = label
        if len(apps) > 1:  # each output is judged against ITS OWN input
            lab += f" [ONE object applied to two matrices in a row (second: {case['seq']}); application {k + 1}, own input]"
        _judge_one(case, case["dm2"] if k else case["dm"], o, next(reps) if "err" not in o else None, lab, out)
        if o.get("same_as_previous_output"):
            out.append({"kind": "property", "what": f"{lab}: returned the object it had returned for the previous matrix, not a new matrix",
                        "expected": "a new DecisionMatrix", "observed": "the previous output object"})
    for i, o in enumerate(obs.get("stages", [])):
        # each step by itself, judged against ITS OWN input (the output of the steps before it)
        if "err" in o:
            break
        one = {"steps": [case["steps"][i]], "pipe": False}
        lab = f"{label} [step {i}, {_label(one)}, applied by itself to " + ("the input matrix" if i == 0 else f"the output of step(s) 0..{i - 1}") + "]"
        _judge_one(one, case["dm"], o, next(reps), lab, out)
    return out


def _empty_criteria(d):
    return [c for j, c in enumerate(d["criteria"]) if d["matrix"] and all(row[j] is None for row in d["matrix"])]


def _judge_one(case, d, obs, rep, label, out):
    steps = case["steps"]

    def prop(what, expected=None, observed=None):
        out.append({"kind": "property", "what": f"{label}: {what}", "expected": expected, "observed": observed})

    def corr(what, expected=None, observed=None):
        out.append({"kind": "correspondence", "what": f"{label}: {what}", "expected": expected, "observed": observed})

    b = obs["before"]
    if obs["input_after"] != b:
        bad = [p for p in PARTS if obs["input_after"][p] != b[p]]
        prop(f"transform modified its INPUT decision matrix ({', '.join(bad)})", {p: b[p] for p in bad}, {p: obs["input_after"][p] for p in bad})
    if "err" in obs:
        if obs["in_domain"]:
            where = "" if obs["failing_step"] is None else f" (step {obs['failing_step']}, whose own input is inside its domain)"
            prop(f"did not return a decision matrix: raised {obs['err']}: {obs['msg']}{where}", "a new decision matrix", obs["err"])
        elif len(steps) == 1 and steps[0]["k"] == "imputer" and _empty_criteria(d) and obs["err"] != "ValueError":
            # a criterion without any observed value: the imputer either refuses (ValueError) or answers with exactly
            # the input's criteria, objectives and weights (judged below like every other answer)
            prop(f"criterion {_empty_criteria(d)} has no observed value: neither a refusal (ValueError) nor a matrix with the "
                 f"same criteria: raised {obs['err']}: {obs['msg']}", "ValueError, or the same criteria / objectives / weights", obs["err"])
        return out
    a = obs["after"]
    if obs.get("same_object") and steps:
        prop("returned the input object itself, not a new matrix", "a new DecisionMatrix", "the same object")
    allowed = set()
    for s in steps:
        allowed |= may_change(s)
    kinds = [s["k"] for s in steps]
    users = [s for s in steps if s["k"] == "user"]
    single_user = steps[0] if len(steps) == 1 and users else None
    returned = obs["user_returned"][0] if single_user and obs["user_returned"] else {}

    # criteria: the same, in the same order
    if "criteria" not in allowed:
        if a["criteria"] != b["criteria"]:
            prop("criteria are not the same criteria in the same order", b["criteria"], a["criteria"])
    elif single_user and a["criteria"] != returned.get("criteria"):
        prop("criteria are not the ones the user function returned", returned.get("criteria"), a["criteria"])
    # alternatives: the same in the same order; under filters a subsequence
    pos = None
    if "alternatives" not in allowed:
        if a["alternatives"] != b["alternatives"]:
            prop("alternatives are not the same alternatives in the same order", b["alternatives"], a["alternatives"])
    elif single_user and "alternatives" in single_user["returns"]:
        if a["alternatives"] != returned.get("alternatives"):
            prop("alternatives are not the ones the user function returned", returned.get("alternatives"), a["alternatives"])
    elif not any("alternatives" in s["returns"] and s["mode"] == "change" for s in users):
        pos = _subsequence_positions(a["alternatives"], b["alternatives"])
        if pos is None:
            prop("a filter did not keep the surviving alternatives in their original relative order (or invented one)",
                 b["alternatives"], a["alternatives"])
        elif a["matrix"]["shape"][0] != len(a["alternatives"]):
            prop("the matrix does not have one row per surviving alternative", len(a["alternatives"]), a["matrix"]["shape"])
        elif all("matrix" not in may_change(s) or s["k"] in ("filter", "nondom") for s in steps):
            # only filters touch the matrix: every surviving row is bit-identical to the row its alternative had
            if a["matrix"]["dtype"] != b["matrix"]["dtype"] and a["matrix"]["shape"][0] > 0:
                prop("a filter changed the dtype of the matrix values", b["matrix"]["dtype"], a["matrix"]["dtype"])
            else:
                bad = [a["alternatives"][i] for i, p in enumerate(pos) if a["matrix"]["rows"][i] != b["matrix"]["rows"][p]]
                if bad:
                    prop(f"a filter altered the row of surviving alternative(s) {bad}", "rows bit-identical to the originals", bad)
    # objectives: unchanged unless an inverter (then all maximise)
    if "inverter" in kinds and not any("objectives" in s["returns"] and s["mode"] == "change" for s in users):
        if a["objectives"] != [1] * len(b["objectives"]):
            prop("after an objective inverter not every objective is maximise", [1] * len(b["objectives"]), a["objectives"])
    elif "objectives" not in allowed:
        if a["objectives"] != b["objectives"]:
            prop("objectives changed although no step is an objective inverter", b["objectives"], a["objectives"])
    elif single_user and a["objectives"] != returned.get("objectives"):
        prop("objectives are not the ones the user function returned", returned.get("objectives"), a["objectives"])
    # weights: bit-identical unless a step targets weights
    if "weights" not in allowed:
        if a["weights"] != b["weights"]:
            prop("weights are not bit-identical although no step targets the weights", b["weights"], a["weights"])
    elif single_user and a["weights"]["hex"] != returned.get("weights"):
        prop("weights are not the ones the user function returned", returned.get("weights"), a["weights"])
    # matrix: bit-identical unless a step targets the matrix
    if "matrix" not in allowed:
        if {k: a["matrix"][k] for k in ("shape", "dtype", "hex")} != {k: b["matrix"][k] for k in ("shape", "dtype", "hex")}:
            prop("matrix values are not bit-identical although no step targets the matrix",
                 {k: b["matrix"][k] for k in ("shape", "dtype", "hex")}, {k: a["matrix"][k] for k in ("shape", "dtype", "hex")})
    elif single_user and a["matrix"]["cols"] != returned.get("matrix"):
        prop("matrix values are not the ones the user function returned", returned.get("matrix"), a["matrix"]["cols"])
    if kinds == ["inverter"]:
        # "inverters … touch only minimise columns" (anchor): a maximise criterion keeps every value
        bad = [b["criteria"][j] for j, o in enumerate(b["objectives"])
               if o == 1 and j < len(a["matrix"]["cols"]) and a["matrix"]["cols"][j] != b["matrix"]["cols"][j]]
        if bad:
            prop(f"an objective inverter changed the values of maximise criteria {bad}", "unchanged", bad)

    # ---- correspondence with the model
    changed = [p for p in PARTS if _token(p, a[p]) != _token(p, b[p])]
    if rep["changed"] != changed:
        corr("model and harness disagree on which parts differ", rep["changed"], changed)
    if rep["outside"]:
        corr(f"parts {rep['outside']} changed although the model's declared set for the step(s) is {rep['declared']}",
             rep["declared"], changed)
    if set(rep["declared"]) - {"dtypes"} != allowed:
        corr("the model's declared set (dtypes aside) differs from what the property text lets the step(s) change",
             sorted(allowed), rep["declared"])
    return out


def nontrivial(case, obs):
    if case.get("table"):
        return True
    return any("err" not in o and any(_token(p, o["after"][p]) != _token(p, o["before"][p]) for p in PARTS)
               for o in _applications(obs))


def tags(case, obs):
    if case.get("table"):
        return ["table-rows:%d" % len(obs["rows"])]
    t = []
    dts = set(case["dm"]["dtypes"])
    t.append("dtypes:" + ("mixed" if len(dts) > 1 else next(iter(dts))))
    t.append("values:" + case["dm"]["family"])
    t.append("steps:%d" % len(case["steps"]))
    if case.get("pipe") or len(case["steps"]) != 1:
        t.append("through-pipeline")
    for s in case["steps"]:
        if s["k"] == "scaler":
            t.append("cls:%s/%s" % (s["cls"], s["target"]))
        elif s["k"] == "filter":
            t.append("cls:Filter" + ("" if s["cls"] == "Fn" else s["cls"]))
            if s["cls"] == "Fn":
                used = [v for c, v in s["conds"] if c in case["dm"]["criteria"]]
                for v in used:
                    t.append("fn-mask:%s/%s" % (v[2] if len(v) > 2 else "bool", "one-criterion" if len(used) == 1 else "several-criteria"))
        elif s["k"] == "nondom":
            t.append("cls:FilterNonDominated")
        elif s["k"] == "user":
            t.append("user:returns-%d" % len([r for r in s["returns"] if r != "hparams"]))
            if "hparams" in s["returns"]:
                t.append("user:returns-hparams")
            if "dtypes" in s["returns"] and s["dtypes_none"]:
                t.append("user:dtypes-None")
            if s["mode"] == "change":
                t.append("user:relabels")
        else:
            t.append("cls:" + s["cls"])
    if case.get("fixed_point"):
        cls, form, which, shape = case["fixed_point"]
        t.append("self-mapped-inversion:%s/%s/%s" % (cls, form, which))
        t.append("self-mapped-inversion:" + shape)
    if case.get("beyond_float"):
        cls, dt, shape = case["beyond_float"]
        t.append("beyond-2**53:%s/%s" % (cls, dt))
        t.append("beyond-2**53:" + shape)
    if case.get("nonfinite"):
        cls, shape, what = case["nonfinite"]
        t.append("non-finite-cells-under-filter:Filter%s/%s" % ("" if cls == "Fn" else cls, what))
        t.append("non-finite-cells-under-filter:" + shape)
        if "err" not in obs:
            kept = set(obs["after"]["alternatives"])
            rows = [r for a, r in zip(case["dm"]["alternatives"], case["dm"]["matrix"]) if a in kept]
            t.append("non-finite-cells-under-filter:%s" % ("a-surviving-row-has-one" if any(x is None or isinstance(x, str) for r in rows for x in r) else "none-survives"))
    for nl in case.get("nonstring_labels", []):
        t.append("non-string-labels:" + nl)
    if case.get("constant_criterion"):
        cls, which, shape, _ = case["constant_criterion"]
        t.append("constant-criterion:%s/%s" % (cls, which))
        t.append("constant-criterion:" + shape)
    if case.get("widths"):
        pair, build, shape = case["widths"]
        t.append("same-kind-widths:%s/%s" % (pair, build))
        t.append("same-kind-widths:" + shape)
    if case.get("inplace_callable"):
        do, when, shape = case["inplace_callable"]
        t.append("in-place-callable:%s/%s" % (do, when))
        t.append("in-place-callable:" + shape)
    if case.get("negative_cells"):
        cls, dts, which, shape = case["negative_cells"]
        t.append("negative-cells:%s/%s" % (cls, dts))
        t.append("negative-cells:%s/%s" % (which, shape))
    if case.get("seq"):
        t.append("one-object-two-matrices:" + case["seq"])
        o2 = obs.get("second", {})
        t.append("second:" + ("raised:" + o2["err"] if "err" in o2 else "answered"))
    if any(s["k"] == "imputer" for s in case["steps"]) and _empty_criteria(case["dm"]):
        keep = [s["params"].get("keep_empty_criteria", "default") for s in case["steps"] if s["k"] == "imputer"][0]
        t.append("all-missing-criterion:%s/keep_empty=%s:%s" % (
            [s["cls"] for s in case["steps"] if s["k"] == "imputer"][0], keep, "refused:" + obs["err"] if "err" in obs else "answered"))
    if "err" in obs:
        t.append("raised:%s:%s" % (obs["err"], "in-domain" if obs["in_domain"] else "out-of-domain"))
        return t
    a, b = obs["after"], obs["before"]
    ch = [p for p in PARTS if _token(p, a[p]) != _token(p, b[p])]
    t.append("changed:" + ("+".join(ch) if ch else "nothing"))
    if any(x is None for row in case["dm"]["matrix"] for x in row):
        t.append("has-missing-cells")
    if any(isinstance(x, str) for row in case["dm"]["matrix"] for x in row):
        t.append("has-infinite-cells")
    if len(a["alternatives"]) < len(b["alternatives"]):
        t.append("rows-dropped")
    return t
