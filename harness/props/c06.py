"""C06 — a dominated alternative is never ranked above the one that dominates it."""
from __future__ import annotations

from decimal import Decimal

import numpy as np

import common as C
import gen as G
import methods as M
from props import c04

PID = "C06"
RULE = (
    "cases: decision matrices in each method's domain that are FORCED to contain dominating pairs (a row copied and worsened on a "
    "random subset of criteria, in the direction of each criterion's objective) and duplicated rows, positive weights, all objective "
    "mixes; methods WSM, WPM, RatioMOORA, ReferencePointMOORA, FMF, TOPSIS x {euclidean, sqeuclidean, cityblock, chebyshev}. "
    "Oracle: for every pair (a, b) with a dominating b (independent pairwise test on the exact input), score(a) is not worse than "
    "score(b) by more than the rounding margin and rank(a) <= rank(b) once the scores differ by more than the margin; identical rows "
    "share a rank. Correspondence: the Lean model's dominance table equals dm.dominance.dominance() and the independent test. "
    "Non-trivial: the matrix contains at least one dominating pair or duplicated row."
)
ASSUMPTIONS = ["rounding margin = 2e-9 * scale with the forward scale of C04"]
PARTIAL = "two identical rows could in principle get different float sums from BLAS blocking; the model cannot exhibit it, the oracle would report it"
NAMES = ["WSM", "WPM", "RatioMOORA", "RefPointMOORA", "FMF", "TOPSIS", "TOPSIS"]
METRICS = ["euclidean", "sqeuclidean", "cityblock", "chebyshev"]


def gen(ctx):
    rng = ctx.rng
    cases = []
    for _ in range(ctx.n(320, 7000)):
        name = rng.choice(NAMES)
        spec = {"name": name}
        if name == "TOPSIS":
            spec["metric"] = rng.choice(METRICS)
        dm = M.in_domain_dm(rng, spec, max_m=ctx.n(9, 14), max_n=6, ties=rng.choice([0.0, 0.3]), dups=0.2, dominated=0.5)
        if dm["family"] == "dyadic" and rng.random() < 0.2:
            off = float(2 ** 27)  # large common offset, small spread: still exact when differences are taken first
            dm["matrix"] = [[x + off for x in row] for row in dm["matrix"]]
            dm["int_matrix"] = False
        if rng.random() < 0.1:
            nd = M.narrow_int_variant(rng, dm)
            # forced dominating pair: the second row is the first one worsened on one criterion
            if len(nd["matrix"]) > 1:
                j = rng.randrange(len(nd["objectives"]))
                nd["matrix"][1] = list(nd["matrix"][0])
                nd["matrix"][1][j] = nd["matrix"][0][j] - 1 if nd["objectives"][j] == 1 else nd["matrix"][0][j] + 1
            dm = nd
        cases.append({"spec": spec, "dm": dm})
    # duplicated alternatives at different positions of LONG float problems (5-9 criteria, decimal values and weights): a kernel
    # whose summation order depends on the row position gives the copies different last bits, hence different ranks
    for _ in range(ctx.n(60, 600)):
        name = rng.choice(["WSM", "RatioMOORA", "RatioMOORA", "TOPSIS", "RefPointMOORA", "WPM", "FMF"])
        spec = {"name": name}
        if name == "TOPSIS":
            spec["metric"] = rng.choice(METRICS)
        dm = M.in_domain_dm(rng, spec, min_m=8, max_m=14, min_n=5, max_n=9, family="float", ties=0.0, dups=0.0)
        dm["matrix"] = [[round(x, 3) + 0.1 for x in row] for row in dm["matrix"]]
        dm["weights"] = [rng.choice([0.1, 0.3, 0.7, 0.15, 0.45, 1.3, 0.05]) for _ in dm["weights"]]
        m_ = len(dm["matrix"])
        for _k in range(rng.randint(1, 3)):
            a, b = rng.sample(range(m_), 2)
            dm["matrix"][b] = list(dm["matrix"][a])
        cases.append({"spec": spec, "dm": dm})
    return cases


def observe(case):
    with M.quiet():
        dm = G.mkdm(case["dm"])
        dec = M.build(case["spec"])
        M.warmup(dec, dm, case["dm"], case["spec"])
        try:
            res = dec.evaluate(dm)
        except Exception as e:
            return {"err": G.err_name(e), "msg": str(e)[:200]}
        return {
            "rank": res.rank_.tolist(),
            "score": np.asarray(res.e_[M.score_key(case["spec"])], dtype=float).tolist(),
            "dominance": dm.dominance.dominance().to_numpy().astype(bool).tolist(),
        }


def requests(case, obs):
    dm = case["dm"]
    return [{"op": "dom", "M": C.ratmat(dm["matrix"]), "O": ["max" if o == 1 else "min" for o in dm["objectives"]],
             "calls": [{"m": "dominance", "strict": False}]}]


def _dominates(o, a, b):
    ge = all((x >= y) if oj == 1 else (x <= y) for oj, x, y in zip(o, a, b))
    gt = any((x > y) if oj == 1 else (x < y) for oj, x, y in zip(o, a, b))
    return ge and gt


def judge(case, obs, replies):
    out = []
    name = case["spec"]["name"]
    dm = case["dm"]
    A, o = dm["matrix"], dm["objectives"]
    m = len(A)
    if "err" in obs:
        out.append({"kind": "property", "what": f"{name} refused an in-domain matrix with {obs['err']}: {obs.get('msg')}"})
        return out
    dom = [[_dominates(o, A[i], A[k]) for k in range(m)] for i in range(m)]
    mod = replies[0]["replies"][0]
    if mod != dom or obs["dominance"] != dom:
        out.append({"kind": "correspondence", "what": "dominance table: model / implementation / independent test disagree",
                    "expected": dom, "observed": {"model": mod, "impl": obs["dominance"]}})
    ex = c04.exact({"spec": case["spec"], "dm": dm})
    skey = c04.SCORE_KEY.get(name, "score")
    scale = ex[skey][1]
    margin = 2e-9 * scale
    rev = M.METHODS[name]["rev"]
    s, r = obs["score"], obs["rank"]
    for a in range(m):
        for b in range(m):
            if a == b:
                continue
            if A[a] == A[b] and r[a] != r[b]:
                out.append({"kind": "property", "what": f"{name}: two alternatives with identical values do not share a rank",
                            "expected": {"a": a, "b": b}, "observed": [r[a], r[b]]})
                return out
            if dom[a][b]:
                adv = (s[a] - s[b]) if rev else (s[b] - s[a])  # > 0: a better, as it should
                if adv < -margin:
                    out.append({"kind": "property", "what": f"{name}: the dominating alternative has a worse score than the dominated one",
                                "expected": {"dominating": a, "dominated": b, "margin": margin}, "observed": [s[a], s[b]]})
                    return out
                if abs(adv) > margin and r[a] > r[b]:
                    out.append({"kind": "property", "what": f"{name}: the dominating alternative is ranked below the dominated one",
                                "expected": {"dominating": a, "dominated": b}, "observed": {"score": [s[a], s[b]], "rank": [r[a], r[b]]}})
                    return out
    return out


def nontrivial(case, obs):
    A, o = case["dm"]["matrix"], case["dm"]["objectives"]
    m = len(A)
    return any(A[i] == A[k] or _dominates(o, A[i], A[k]) for i in range(m) for k in range(m) if i != k)


def tags(case, obs):
    A, o = case["dm"]["matrix"], case["dm"]["objectives"]
    m = len(A)
    t = ["method:" + case["spec"]["name"]]
    if case["spec"]["name"] == "TOPSIS":
        t.append("metric:" + case["spec"]["metric"])
    npairs = sum(1 for i in range(m) for k in range(m) if i != k and _dominates(o, A[i], A[k]))
    t.append("dominating-pairs:" + ("0" if npairs == 0 else "1-3" if npairs <= 3 else "4+"))
    if any(A[i] == A[k] for i in range(m) for k in range(i + 1, m)):
        t.append("has-duplicate-rows")
    return t
