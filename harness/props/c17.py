"""C17 — equality and diff are total, consistent, and name exactly what differs."""
from __future__ import annotations

import copy as _copy
import itertools
import math
from fractions import Fraction

import numpy as np

import common as C

PID = "C17"
RULE = (
    "cases: pairs (x, y) with x a DecisionMatrix / RankResult / KernelResult / RanksComparator and y: the same object; a "
    "copy (deepcopy, copy, dm.copy(), comparator rebuilt from its ranks); an identically constructed object; x with exactly ONE "
    "member changed (dm: criteria, alternatives, objectives, weights, matrix, dtypes; result: method, alternatives, values, "
    "extra_ [array cell, int, str, key set, nested dict, array length, value type]; comparator: one ranking, a name, the number of "
    "rankings), decision matrices differing ONLY in the width of one criterion's dtype (int64 / int32 / int16 / int8, uint*, "
    "float64 / float32, built by mkdm(dtypes=) or dm.copy(dtypes=)) and results / comparators identical except for the concrete "
    "type of ONE value of extra holding the same value (float / np.float64 / float subclass, int / bool / np.bool_ / int subclass, "
    "str / np.str_ / str subclass, dict / OrderedDict / defaultdict / dict subclass, ndarray / ndarray subclass; either side the "
    "subclass) - these two families are asked from BOTH sides (==, !=, equals, aequals, diff, assert_* of (x, y) and of (y, x)); "
    "HISTORIES on one decision matrix: first other matrices are derived from it (dm.copy(<member>=...) for each member in turn, "
    "several members at once, 1-3 times; entries of the returned to_dict() replaced), then it is compared with itself, a plain "
    "dm.copy() / deepcopy, an identically constructed twin, or dm.copy(<one member>=...) (exactly that member differs); results / "
    "comparators identical except for ONE int / bool / object ndarray of extra (top level or nested) of a different shape on each "
    "side - broadcast-compatible ([1]|[k], 0-d|1-d, [k,k]|[k], [0]|[1], most often one repeated value) or not ([k]|[k+1], [0]|[k]) - "
    "asked from both sides; "
    "a FIXED SHARE of every run: (i) pairs differing in ONE float member (dm weights / matrix cell; a result's extra: float ndarray "
    "cell 1-d / 2-d / nested, float scalar; the same inside a comparator) by a tiny non-zero absolute amount - decimal arithmetic vs "
    "the literal (0.1+0.2 | 0.3), neighbouring doubles below 2 and above 4, 2-4 units in the last place, two very small values "
    "(1e-20 | 3e-20, 1e-300 | 2e-300, subnormals) - every kind in every slot in turn, compared with ==, !=, equals (exact: rtol = "
    "atol = 0: unequal) and aequals / diff without tolerance (names exactly that member), from both sides; (ii) rank / kernel results "
    "and comparators holding them identical in method, values and extra whose alternatives are the same labels (strings, whole "
    "numbers) in another order (two swapped, reversed, rotated, shuffled): unequal at every tolerance, diff names `alternatives` "
    "(`ranks`), from both sides; (iv) rank / kernel results and comparators holding them whose extra (top level, or a mapping nested "
    "one / two levels down) have the SAME NUMBER of entries under DIFFERENT KEY NAMES, the entries only one side has holding None "
    "({'score': a, 'lambda_': None} | {'score': a, 'iterations': 7}; {'p': None} | {'q': None}; two such entries; the only entries "
    "of the mapping; either side the None-only one; before / after the shared entries): unequal from BOTH sides at every tolerance, "
    "diff names `extra_` (`ranks`) - every (kind, holder) in turn; (v) comparators whose contained ranks (first / last / middle / "
    "every one) differ ONLY in method (a character, case, a blank, '') or ONLY in extra (int, str, nested int, value type, an entry "
    "renamed, None | 0 / '' / {} / empty array, one more entry holding None): exactly `ranks` differs, from both sides; "
    "(iii) every kind of left operand (matrix, rank result, kernel result, comparator) compared with "
    "UNRELATED objects of awkward shapes, every kind with every left operand in every run: ragged nested sequences (rows of "
    "different lengths - random, the documented [[1, 2, 3], [4, 5]] / [1, [2, 3]] shapes, the left operand's own shape with one row "
    "a cell longer / shorter - as lists, tuples, lists of arrays, object arrays, Series of lists, dict values, generators, sets of "
    "tuples, three levels deep), None / NotImplemented / scalars, strings (also the left's type name), bytes, empty and regular "
    "sequences, the left operand's own values as a nested list / ndarray / pandas object / dict of members, containers holding the "
    "left operand, dicts, sets, generators and iterators, 0-d / empty / 3-d / masked / structured arrays, pandas objects, classes "
    "(also the library's own), functions, bound methods of the left operand, modules, an object whose len / iter / __array__ / "
    "shape raise: ==, != (both operand orders unless NumPy / pandas answer the reflected operator), equals, aequals, diff, assert_* "
    "never raise (assert_*: AssertionError), the answer is 'not equal' and diff says different_types; "
    "for every pair ==, equals must answer what aequals / diff(rtol=0, atol=0, equal_nan=False, "
    "check_dtypes=True) answer; "
    "numeric members changed by 0.37x (within) or 2.7x (beyond) a design tolerance drawn from the grid; different "
    "shapes / lengths including 1 (broadcasting) and 0; unrelated types (dm / rank / kernel / comparator / int / None / str / list / "
    "float / dict / ndarray); unrelated random pairs of the same kind; pairs with NaN. Every pair is compared at its design tolerance "
    "and at tolerances drawn from rtol, atol in {0,1e-9,1e-5,1e-2,1} x equal_nan x check_dtypes (thorough: all 100), plus the default "
    "keyword arguments. Observed: ==, != (both directions), equals, aequals, diff().members_diff / different_types, "
    "skcriteria.testing.assert_*. Non-trivial: the pair is not (x, x); distinct by case hash. A comparison in which "
    "double-precision rounding decides `|a-b| <= atol + rtol*|b|` differently from exact arithmetic (or lies within 1e-12 of "
    "the bound) is skipped and counted."
)
ASSUMPTIONS = [
    "np.allclose modelled as |a-b| <= atol + rtol*|b| over exact rationals; calls in which IEEE rounding flips that test are skipped",
    "np.array_equal modelled as shape equality + cell equality (NaN != NaN); object-dtype arrays hold numbers / booleans only",
    "extras are dictionaries with string keys holding float / int / bool / object ndarrays, Python ints, strs, floats and dicts",
    "labels are str or int; a label is compared by value and type tag",
    "assert_rcmp_equals re-checks each ranking with assert_result_equals at DEFAULT tolerance (the caller's kwargs are not "
    "forwarded): modelled as the code does it, required only to raise nothing but AssertionError, to pass on copies and to raise "
    "AssertionError for a member changed beyond the default tolerance",
]
PARTIAL = (
    "the tie to Python is differential; IEEE rounding inside np.allclose is not modelled (near-boundary comparisons are skipped and "
    "counted); inf values, string arrays and arbitrary objects inside extras are outside the model; pairs whose extras differ only in "
    "the concrete (sub)type of a value (np.float64, bool, OrderedDict, subclasses), or whose extras hold None, are judged by the property oracle alone "
    "(nothing raises, ==/!=/equals/aequals/diff/assert_* answer the same from both sides, diff names at most that member)"
)
EXHAUSTIVE = False

GRID = [0.0, 1e-9, 1e-5, 1e-2, 1.0]
NEAR = Fraction(1, 10 ** 12)
DM_MEMBERS = ["criteria", "alternatives", "objectives", "weights", "matrix", "dtypes"]
RES_MEMBERS = ["method", "alternatives", "values", "extra_"]
ALT_POOL = ["A0", "A1", "A2", "A10", "z", "alt", "PE", "foo", "foo_1", "élan", "A 3", "b", "Q1", "Q2"]
CRIT_POOL = ["C0", "C1", "C2", "C10", "ROE", "cost", "b", "Ω", "c_1"]
METHODS = ["TOPSIS", "WeightedSumModel", "m", "ELECTRE2", ""]
OTHERS = ["int", "none", "str", "list", "float", "dict", "ndarray"]

# ----------------------------------------------------------------------------- numbers in specs


def _num(v):
    """spec number -> python value ("nan" is NaN)"""
    return float("nan") if v == "nan" else v


def _isnan(v):
    return v == "nan" or (isinstance(v, float) and math.isnan(v))


def _frac(v):
    if isinstance(v, bool):
        return Fraction(int(v))
    if isinstance(v, int):
        return Fraction(v)
    return Fraction(*float(v).as_integer_ratio())


# ----------------------------------------------------------------------------- building the real objects


class _FloatSub(float):
    """a float subclass (same value, same behaviour)"""


class _IntSub(int):
    """an int subclass"""


class _StrSub(str):
    """a str subclass"""


class _DictSub(dict):
    """a dict subclass"""


class _ArrSub(np.ndarray):
    """an ndarray subclass (a view of the same data)"""


# concrete Python type of a value inside `extra` (spec key "as"; absent = the plain type).  Every entry of one row holds the
# SAME value; the first is the plain type, the others are subclasses of it / the NumPy scalar of the same value.
AS_TYPES = {
    "float": ["float", "np.float64", "float_sub"],
    "int": ["int", "int_sub", "np.int64"],
    "int01": ["int", "bool", "np.bool_", "int_sub", "np.int64"],  # the value is 0 or 1
    "str": ["str", "np.str_", "str_sub"],
    "dict": ["dict", "OrderedDict", "dict_sub", "defaultdict"],
    "farr": ["ndarray", "ndarray_sub"],
    "iarr": ["ndarray", "ndarray_sub"],
    "barr": ["ndarray", "ndarray_sub"],
}
# (base, derived): `derived` is a subclass of `base`
SUBCLASS_OF = {("float", "np.float64"), ("float", "float_sub"), ("int", "int_sub"), ("int", "bool"), ("str", "np.str_"),
               ("str", "str_sub"), ("dict", "OrderedDict"), ("dict", "dict_sub"), ("dict", "defaultdict"),
               ("ndarray", "ndarray_sub")}


def _as_type(v, as_):
    import collections

    if as_ in (None, "float", "int", "str", "dict", "ndarray"):
        return v
    if as_ == "np.float64":
        return np.float64(v)
    if as_ == "float_sub":
        return _FloatSub(v)
    if as_ == "int_sub":
        return _IntSub(v)
    if as_ == "np.int64":
        return np.int64(v)
    if as_ == "bool":
        return bool(v)
    if as_ == "np.bool_":
        return np.bool_(v)
    if as_ == "np.str_":
        return np.str_(v)
    if as_ == "str_sub":
        return _StrSub(v)
    if as_ == "OrderedDict":
        return collections.OrderedDict(v)
    if as_ == "dict_sub":
        return _DictSub(v)
    if as_ == "defaultdict":
        return collections.defaultdict(int, v)
    if as_ == "ndarray_sub":
        return v.view(_ArrSub)
    raise KeyError(as_)


def _mk_extra(spec):
    out = {}
    for k, e in spec.items():
        t = e["t"]
        if t == "farr":
            v = np.array([_num(v) for v in e["data"]], dtype=float).reshape(e["shape"])
        elif t == "iarr":
            v = np.array(e["data"], dtype=int).reshape(e["shape"])
        elif t == "barr":
            v = np.array(e["data"], dtype=bool).reshape(e["shape"])
        elif t == "oarr":
            a = np.empty(len(e["data"]), dtype=object)
            for i, v in enumerate(e["data"]):
                a[i] = _num(v)
            v = a.reshape(e["shape"])
        elif t in ("int", "str"):
            v = e["v"]
        elif t == "float":
            v = float(_num(e["v"]))
        elif t == "dict":
            v = _mk_extra(e["v"])
        elif t == "none":  # an option that was left unset (outside the model's extras: oracle-only cases)
            v = None
        else:
            raise KeyError(t)
        out[k] = _as_type(v, e.get("as"))
    return out


def _mk_result(spec):
    from skcriteria.agg import KernelResult, RankResult

    vd = spec.get("vdtype", "list")
    vals = [_num(v) for v in spec["values"]]
    if vd == "list":
        values = list(vals)
    elif vd == "object":
        values = np.empty(len(vals), dtype=object)
        for i, v in enumerate(vals):
            values[i] = v
    else:
        values = np.array(vals, dtype={"int": int, "float": float, "bool": bool}[vd])
    cls = RankResult if spec["type"] == "rank" else KernelResult
    return cls(spec["method"], list(spec["alternatives"]), values, _mk_extra(spec["extra"]))


def _mk_other(kind):
    return {"int": 3, "none": None, "str": "x", "list": [1, 2, 3], "float": 2.5, "dict": {"a": 1},
            "ndarray": np.array([1.0, 2.0, 3.0])}[kind]


# ---- UNRELATED objects of awkward shapes (the right operand of a comparison with a matrix / result / comparator)


class _Plain:
    """a user-defined class without any comparison / sequence protocol"""


class _Hostile:
    """an object every sequence / array protocol of which raises (its `==` is the default one)"""

    def __len__(self):
        raise RuntimeError("no len")

    def __iter__(self):
        raise RuntimeError("no iter")

    def __getitem__(self, i):
        raise RuntimeError("no getitem")

    def __array__(self, *a, **k):
        raise RuntimeError("no array")

    @property
    def shape(self):
        raise RuntimeError("no shape")

    @property
    def dtype(self):
        raise RuntimeError("no dtype")


def _plain_function(a, b=1):
    return a


def _ragged_rows(spec):
    """the rows of a ragged nested sequence: spec["rows"] are the row lengths (not all the same), spec["cell"] the cell type"""
    rows, c = [], 0
    for ln in spec["rows"]:
        row = []
        for _ in range(ln):
            c += 1
            row.append({"int": c, "float": c + 0.5, "str": "s%d" % c, "bool": c % 2 == 0}[spec["cell"]])
        rows.append(row)
    return rows


def _mk_ragged(spec):
    import pandas as pd

    rows = _ragged_rows(spec)
    w = spec["wrap"]
    if w == "list":
        return [list(r) for r in rows]
    if w == "tuple":
        return tuple(tuple(r) for r in rows)
    if w == "tuple-of-lists":
        return tuple(list(r) for r in rows)
    if w == "list-of-tuples":
        return [tuple(r) for r in rows]
    if w == "arrays":
        return [np.array(r) for r in rows]
    if w == "tuple-of-arrays":
        return tuple(np.array(r) for r in rows)
    if w == "scalar-first":  # [1, [2, 3]]
        return [1] + [list(r) for r in rows]
    if w == "scalar-last":
        return [list(r) for r in rows] + [0.5]
    if w == "deep":  # ragged at the third level only
        return [[list(r)] for r in rows]
    if w == "deep-outer":  # ragged at the second and third level
        return [[list(r) for r in rows[:1]], [list(r) for r in rows[1:]] + [[]]]
    if w == "object-array":
        a = np.empty(len(rows), dtype=object)
        for i, r in enumerate(rows):
            a[i] = list(r)
        return a
    if w == "series":
        return pd.Series([list(r) for r in rows], dtype=object)
    if w == "dict-values":
        return {"r%d" % i: list(r) for i, r in enumerate(rows)}
    if w == "generator":
        return (list(r) for r in rows)
    if w == "set-of-tuples":
        return {tuple(r) for r in rows}
    if w == "list-of-sets":
        return [set(r) for r in rows]
    if w == "list-of-ranges":
        return [range(len(r)) for r in rows]
    if w == "list-of-strs":
        return ["x" * len(r) for r in rows]
    raise KeyError(w)


RAGGED_WRAPS = ["list", "tuple", "arrays", "scalar-first", "tuple-of-lists", "list-of-tuples", "tuple-of-arrays", "scalar-last",
                "deep", "deep-outer", "object-array", "series", "dict-values", "generator", "set-of-tuples", "list-of-sets",
                "list-of-ranges", "list-of-strs"]


def _zero_d(v):
    a = np.empty((), dtype=object)
    a[()] = v
    return a


def _own_values(x):
    """the numbers the left object holds, as a plain nested list"""
    from skcriteria.cmp import RanksComparator
    from skcriteria.core import DecisionMatrix

    if type(x) is DecisionMatrix:
        return x.matrix.to_numpy().tolist()
    if type(x) is RanksComparator:
        return [np.asarray(r.values).tolist() for _, r in x.ranks]
    return np.asarray(x.values).tolist()


def _own_frame(x):
    import pandas as pd
    from skcriteria.cmp import RanksComparator
    from skcriteria.core import DecisionMatrix

    if type(x) is DecisionMatrix:
        return x.matrix.copy()
    if type(x) is RanksComparator:
        return pd.DataFrame({n: pd.Series(np.asarray(r.values).tolist()) for n, r in x.ranks})
    return pd.Series(np.asarray(x.values).tolist(), index=list(x.alternatives))


def _own_dict(x):
    from skcriteria.cmp import RanksComparator
    from skcriteria.core import DecisionMatrix

    if type(x) is DecisionMatrix:
        return x.to_dict()
    if type(x) is RanksComparator:
        return dict(x.ranks)
    return {"method": x.method, "alternatives": x.alternatives, "values": x.values, "extra_": dict(x.extra_)}


def _awkward_table():
    """name -> (left object -> an object unrelated to every class of the library); every call builds a fresh object"""
    import collections
    import decimal
    import functools
    import pandas as pd
    from skcriteria.agg import RankResult
    from skcriteria.cmp import RanksComparator
    from skcriteria.core import DecisionMatrix

    return {
        # nothing / singletons / scalars
        "None": lambda x: None, "NotImplemented": lambda x: NotImplemented, "Ellipsis": lambda x: Ellipsis,
        "True": lambda x: True, "zero": lambda x: 0, "float-nan": lambda x: float("nan"), "float-inf": lambda x: float("inf"),
        "complex": lambda x: 1j, "Fraction": lambda x: Fraction(1, 3), "Decimal": lambda x: decimal.Decimal("1.5"),
        "np.float64": lambda x: np.float64(2.5), "np.int64": lambda x: np.int64(3), "pd.NA": lambda x: pd.NA,
        "pd.Timestamp": lambda x: pd.Timestamp("2020-01-01"), "object()": lambda x: object(),
        # text / bytes
        "str": lambda x: "abc", "empty-str": lambda x: "", "str-of-nested-list": lambda x: "[[1, 2, 3], [4, 5]]",
        "own-type-name": lambda x: type(x).__name__, "bytes": lambda x: b"abc", "empty-bytes": lambda x: b"", "bytearray": lambda x: bytearray(b"ab"),
        "memoryview": lambda x: memoryview(b"abcd"),
        # regular and empty sequences
        "empty-list": lambda x: [], "empty-tuple": lambda x: (), "list-of-empty-lists": lambda x: [[], []],
        "regular-nested-list": lambda x: [[1, 2, 3], [4, 5, 6]], "regular-nested-tuple": lambda x: ((1.0, 2.0), (3.0, 4.0)),
        "list-of-None": lambda x: [None, None], "list-of-dicts": lambda x: [{"a": 1}, {"b": 2, "c": 3}],
        "range": lambda x: range(3), "deque": lambda x: collections.deque([1, 2]), "namedtuple": lambda x:
            collections.namedtuple("P", "a b")(1, [2, 3]),
        # the left object's own data as something that is not one of the library's objects
        "own-values-nested-list": lambda x: _own_values(x), "own-values-ndarray": lambda x: np.asarray(_own_values(x)),
        "own-values-pandas": lambda x: _own_frame(x), "own-members-dict": lambda x: _own_dict(x),
        "own-shape-tuple": lambda x: tuple(np.shape(_own_values(x))),
        # containers holding the left object itself
        "list-holding-left": lambda x: [x], "tuple-holding-left-twice": lambda x: (x, x), "dict-holding-left": lambda x: {"k": x},
        "ragged-list-holding-left": lambda x: [x, [x]], "0-d-array-holding-left": lambda x: _zero_d(x),
        # mappings / sets / iterators
        "dict": lambda x: {"a": 1, "b": [1, 2]}, "empty-dict": lambda x: {}, "nested-dict": lambda x: {"a": {"b": {"c": [1, [2]]}}},
        "OrderedDict": lambda x: collections.OrderedDict(a=1), "dict-int-keys": lambda x: {0: [1, 2], 1: [3]},
        "set": lambda x: {1, 2, 3}, "empty-set": lambda x: set(), "frozenset": lambda x: frozenset([1, (2, 3)]),
        "generator": lambda x: (i for i in range(3)), "empty-generator": lambda x: (i for i in ()), "iterator": lambda x: iter([1, 2]),
        "map-object": lambda x: map(abs, [1, -2]), "zip-object": lambda x: zip([1, 2], [3, 4]), "dict-keys": lambda x: {"a": 1}.keys(),
        # arrays
        "0-d-float-array": lambda x: np.array(3.0), "0-d-int-array": lambda x: np.array(3), "0-d-str-array": lambda x: np.array("x"),
        "0-d-None-array": lambda x: _zero_d(None), "0-d-list-array": lambda x: _zero_d([1, [2, 3]]),
        "empty-array": lambda x: np.array([]), "empty-2d-array": lambda x: np.zeros((0, 3)), "3-d-array": lambda x: np.zeros((2, 2, 2)),
        "str-array": lambda x: np.array(["a", "b"]), "bool-array": lambda x: np.array([True, False]),
        "masked-array": lambda x: np.ma.array([1.0, 2.0], mask=[False, True]),
        "structured-array": lambda x: np.zeros(2, dtype=[("a", int), ("b", float)]),
        # pandas
        "pd.Series": lambda x: pd.Series([1.0, 2.0], index=["a", "b"]), "empty-pd.Series": lambda x: pd.Series([], dtype=float),
        "pd.DataFrame": lambda x: pd.DataFrame({"a": [1, 2], "b": [3.0, 4.0]}), "empty-pd.DataFrame": lambda x: pd.DataFrame(),
        "pd.Index": lambda x: pd.Index(["a", "b"]), "pd.MultiIndex": lambda x: pd.MultiIndex.from_tuples([("a", 1), ("b", 2)]),
        "pd.Categorical": lambda x: pd.Categorical(["a", "b", "a"]),
        # classes, functions, modules
        "class-int": lambda x: int, "class-dict": lambda x: dict, "class-type": lambda x: type, "class-ndarray": lambda x: np.ndarray,
        "class-user": lambda x: _Plain, "class-DecisionMatrix": lambda x: DecisionMatrix, "class-RankResult": lambda x: RankResult,
        "class-RanksComparator": lambda x: RanksComparator, "class-of-left": lambda x: type(x),
        "instance-user": lambda x: _Plain(), "instance-hostile": lambda x: _Hostile(), "exception-instance": lambda x: ValueError("x"),
        "lambda": lambda x: (lambda a: a), "function": lambda x: _plain_function, "builtin-len": lambda x: len,
        "np.shape": lambda x: np.shape, "bound-method-diff": lambda x: x.diff, "bound-method-equals": lambda x: x.equals,
        "unbound-method": lambda x: type(x).diff, "partial": lambda x: functools.partial(_plain_function, 1),
        "module-numpy": lambda x: np,
    }


def _awkward_names():
    return sorted(_awkward_table())


def _mk_awkward(spec, left):
    if spec["what"] == "ragged":
        return _mk_ragged(spec)
    return _awkward_table()[spec["what"]](left)


def _foreign_eq(y):
    """is `y == x` answered by NumPy / pandas (elementwise, not a bool) rather than by Python's default / the library?"""
    import pandas as pd

    return isinstance(y, (np.ndarray, np.generic, pd.Series, pd.DataFrame, pd.Index, pd.Categorical, type(pd.NA)))


def _copy_kw(kw):
    """spec of keyword arguments of DecisionMatrix.copy(**kw) -> the values"""
    out = {}
    for k, v in kw.items():
        if k == "matrix":
            out[k] = [[_num(c) for c in row] for row in v]
        elif k == "weights":
            out[k] = [_num(c) for c in v]
        else:
            out[k] = list(v)
    return out


def run_history(x, history):
    """what was done with the object `x` BEFORE the comparison (none of it may change x): derive other matrices from it with
    x.copy(<member>=...), or replace entries of the dictionary x.to_dict() returned.  Returns one record per step."""
    done = []
    for step in history:
        try:
            kw = _copy_kw(step["kw"])
            if step["op"] == "copy":
                x.copy(**kw)
            elif step["op"] == "to_dict_update":
                x.to_dict().update(kw)
            else:
                raise KeyError(step["op"])
            done.append({"ok": True})
        except Exception as e:
            done.append({"err": type(e).__name__, "msg": str(e)[:160]})
    return done


def build(spec, left=None):
    import pandas as pd
    import skcriteria as skc
    from skcriteria.cmp import RanksComparator
    from skcriteria.core import DecisionMatrix

    o = spec["o"]
    if o == "left":
        return left
    if o == "copy":
        how = spec["how"]
        if how == "deepcopy":
            return _copy.deepcopy(left)
        if how == "copy":
            return _copy.copy(left)
        if how == "dm.copy":
            if spec.get("kw"):
                return left.copy(**_copy_kw(spec["kw"]))
            return left.copy(dtypes=list(spec["dtypes"])) if spec.get("dtypes") else left.copy()
        if how == "rebuild":
            return RanksComparator(left.ranks)
        raise KeyError(how)
    if o == "dm":
        ctor = spec.get("ctor", "mkdm")
        if ctor == "empty_df":
            return DecisionMatrix(pd.DataFrame(columns=list(spec["criteria"])), list(spec["objectives"]),
                                  [_num(w) for w in spec["weights"]])
        rows = [[_num(v) for v in r] for r in spec["matrix"]]
        if ctor == "zeros" or not rows:
            matrix = np.zeros((len(rows), len(spec["criteria"])))
        else:
            matrix = rows
        kw = {"dtypes": list(spec["dtypes"])} if spec.get("dtypes") else {}
        return skc.mkdm(matrix, list(spec["objectives"]), weights=[_num(w) for w in spec["weights"]],
                        alternatives=list(spec["alternatives"]), criteria=list(spec["criteria"]), **kw)
    if o == "result":
        return _mk_result(spec)
    if o == "rcmp":
        return RanksComparator([(n, _mk_result(r)) for n, r in spec["ranks"]])
    if o == "other":
        if spec["v"] == "awkward":
            return _mk_awkward(spec, left)
        return _mk_other(spec["v"])
    raise KeyError(o)


# ----------------------------------------------------------------------------- real object -> model encoding


class _Oids:
    def __init__(self):
        self.m, self.keep = {}, []

    def __call__(self, obj):
        self.keep.append(obj)
        return self.m.setdefault(id(obj), len(self.m) + 1)


def _cell(v):
    if isinstance(v, (bool, np.bool_)):
        return "1/1" if v else "0/1"
    if isinstance(v, (int, np.integer)):
        return f"{int(v)}/1"
    v = float(v)
    if math.isnan(v):
        return None
    return C.rat(v)


def _label(v):
    if isinstance(v, str):
        return "s:" + v
    if isinstance(v, (bool, np.bool_)):
        return "b:%d" % int(v)
    if isinstance(v, (int, np.integer)):
        return "i:%d" % int(v)
    return "o:" + repr(v)


def _narr(a):
    a = np.asarray(a)
    return {"shape": [int(s) for s in a.shape], "cells": [_cell(v) for v in a.reshape(-1).tolist()], "obj": bool(a.dtype == object)}


def _extra_model(mapping, lenient=False):
    """`lenient` (oracle-only cases): a value whose exact type the model has no notion of is recorded as opaque"""
    out = []
    for k in mapping:
        if not isinstance(k, str):
            raise TypeError(f"extra key {k!r} is not a str")
        v = mapping[k]
        if lenient and type(v) not in (np.ndarray, int, str, float, dict):
            out.append([k, {"t": "opaque", "py": type(v).__name__}])
        elif isinstance(v, np.ndarray):
            if v.dtype.kind in "fc":
                out.append([k, {"t": "farr", "a": _narr(v)}])
            elif v.dtype.kind in "iub" or v.dtype == object:
                out.append([k, {"t": "xarr", "a": _narr(v)}])
            else:
                raise TypeError(f"extra array dtype {v.dtype} is outside the model")
        elif type(v) is int:
            out.append([k, {"t": "int", "v": v}])
        elif type(v) is str:
            out.append([k, {"t": "str", "v": v}])
        elif type(v) is float:
            out.append([k, {"t": "flt", "v": _cell(v)}])
        elif type(v) is dict:
            out.append([k, {"t": "dict", "v": _extra_model(v, lenient)}])
        else:
            raise TypeError(f"extra value of type {type(v).__name__} is outside the model")
    return out


def _result_model(r, oid, lenient=False):
    from skcriteria.agg import RankResult

    return {"kind": "result", "type": "rank" if type(r) is RankResult else "kernel", "oid": oid(r), "method": r.method,
            "alternatives": [_label(a) for a in r.alternatives.tolist()], "values": _narr(r.values),
            "extra": _extra_model(r.extra_, lenient)}


def to_model(x, oid, lenient=False):
    from skcriteria.agg import KernelResult, RankResult
    from skcriteria.cmp import RanksComparator
    from skcriteria.core import DecisionMatrix

    if type(x) is DecisionMatrix:
        m = _narr(x.matrix.to_numpy())
        m["shape"] = [int(s) for s in x.shape]
        return {"kind": "dm", "oid": oid(x), "shape": [int(s) for s in x.shape],
                "alternatives": [_label(a) for a in np.asarray(x.alternatives).tolist()],
                "criteria": [_label(a) for a in np.asarray(x.criteria).tolist()],
                "objectives": [int(v) for v in x.iobjectives.tolist()],
                "weights": [_cell(v) for v in x.weights.tolist()], "matrix": m,
                "dtypes": [str(d) for d in x.dtypes.tolist()]}
    if type(x) in (RankResult, KernelResult):
        return _result_model(x, oid, lenient)
    if type(x) is RanksComparator:
        return {"kind": "rcmp", "oid": oid(x), "ranks": [[n, _result_model(r, oid, lenient)] for n, r in x.ranks]}
    return {"kind": "other", "oid": oid(x), "type": type(x).__name__}


# ----------------------------------------------------------------------------- observation


def _call(f):
    try:
        v = f()
    except Exception as e:  # the code under test raised
        return {"err": type(e).__name__, "msg": str(e)[:160]}
    if isinstance(v, (bool, np.bool_)):
        return bool(v)
    return {"err": "NotABool", "msg": repr(v)[:160]}


def _diff(x, y, kw):
    try:
        d = x.diff(y, **kw)
        return {"different_types": bool(d.different_types), "members": sorted(d.members_diff),
                "has_differences": bool(d.has_differences)}
    except Exception as e:
        return {"err": type(e).__name__, "msg": str(e)[:160]}


def _assert(x, y, kw):
    from skcriteria import testing as T
    from skcriteria.cmp import RanksComparator
    from skcriteria.core import DecisionMatrix

    f = T.assert_dmatrix_equals if type(x) is DecisionMatrix else (
        T.assert_rcmp_equals if type(x) is RanksComparator else T.assert_result_equals)
    try:
        f(x, y, **kw)
        return "pass"
    except AssertionError:
        return "AssertionError"
    except Exception as e:
        return {"err": type(e).__name__, "msg": str(e)[:160]}


def _kw(t):
    return {"rtol": t[0], "atol": t[1], "equal_nan": bool(t[2]), "check_dtypes": bool(t[3])}


def observe(case):
    import warnings

    warnings.simplefilter("ignore")
    x = build(case["left"])
    hist = run_history(x, case["history"]) if case.get("history") else None
    y = build(case["right"], x)
    oid = _Oids()
    lenient = bool(case.get("oracle_only"))
    obs = {"left": to_model(x, oid, lenient), "right": to_model(y, oid, lenient)}
    if hist is not None:
        obs["history"] = hist
    obs["eq"] = _call(lambda: x == y)
    obs["ne"] = _call(lambda: x != y)
    obs["equals"] = _call(lambda: x.equals(y))
    rev_ok = not isinstance(y, np.ndarray) and not _foreign_eq(y)
    obs["eq_rev"] = _call(lambda: y == x) if rev_ok else None
    obs["ne_rev"] = _call(lambda: y != x) if rev_ok else None
    obs["default"] = {"aequals": _call(lambda: x.aequals(y)), "diff": _diff(x, y, {}), "assert": _assert(x, y, {})}
    obs["tols"] = []
    for t in case["tols"]:
        kw = _kw(t)
        obs["tols"].append({"aequals": _call(lambda: x.aequals(y, **kw)), "diff": _diff(x, y, kw),
                            "assert": _assert(x, y, kw)})
    if case.get("both_ways") and rev_ok and hasattr(y, "diff"):
        # the same questions asked from the other side (y is one of the library's objects)
        obs["equals_rev"] = _call(lambda: y.equals(x))
        obs["default_rev"] = {"aequals": _call(lambda: y.aequals(x)), "diff": _diff(y, x, {}), "assert": _assert(y, x, {})}
        obs["tols_rev"] = []
        for t in case["tols"]:
            kw = _kw(t)
            obs["tols_rev"].append({"aequals": _call(lambda: y.aequals(x, **kw)), "diff": _diff(y, x, kw),
                                    "assert": _assert(y, x, kw)})
    return obs


# ----------------------------------------------------------------------------- model requests


def _default_tol(left):
    # DecisionMatrix.diff / RanksComparator.diff default equal_nan=True, ResultABC.diff default equal_nan=False
    return [1e-05, 1e-08, left["kind"] != "result", False]


def _req(op, left, right, t, version="fixed"):
    return {"op": op, "kind": left["kind"], "left": left, "right": right, "rtol": C.rat(t[0]), "atol": C.rat(t[1]),
            "equal_nan": bool(t[2]), "check_dtypes": bool(t[3]), "version": version}


def _rank_pairs(obs):
    l, r = obs["left"], obs["right"]
    if l["kind"] == "rcmp" and r["kind"] == "rcmp" and len(l["ranks"]) == len(r["ranks"]):
        return list(zip(l["ranks"], r["ranks"]))
    return []


def requests(case, obs):
    l, r = obs["left"], obs["right"]
    reqs = []
    if case.get("oracle_only"):
        return reqs  # the model's extras have no notion of these value types: property oracle only
    for i, t in enumerate([_default_tol(l)] + list(case["tols"])):
        reqs.append(_req("diff", l, r, t))
        # x.aequals(y) has its own defaults: equal_nan=True whatever the class's diff() default is
        reqs.append(_req("cmpall", l, r, [1e-05, 1e-08, True, False] if i == 0 else t))
    reqs.append(_req("cmpall", r, l, [0.0, 0.0, False, True]))  # y == x
    # assert_rcmp_equals re-checks every ranking with assert_result_equals(lrank, rrank) at default kwargs
    for (ln, lr), (rn, rr) in _rank_pairs(obs):
        reqs.append(_req("diff", lr, rr, [1e-05, 1e-08, False, False]))
    for ver in ("v0", "v1"):
        if ver + "_expect" in case:
            t = case.get(ver + "_tol", [0.0, 0.0, False, True])
            reqs.append(_req("diff", l, r, t, ver))
            reqs.append(_req("diff", r, l, t, ver))
    return reqs


# ----------------------------------------------------------------------------- exact arithmetic of the oracle


def _rounding_flips(fa, fb, rt, at):
    """does the double-precision evaluation of `|a-b| <= atol + rtol*|b|` (what NumPy computes) differ from the exact
    one (what the property and the model speak about)?  fa, fb, rt, at: Fractions of doubles"""
    d = abs(fa - fb)
    bound = at + rt * abs(fb)
    exact = d <= bound
    x, y = float(fa), float(fb)
    in_float = abs(x - y) <= float(at) + float(rt) * abs(y)
    return in_float != exact or (d != bound and abs(d - bound) <= NEAR * bound)


def _pair_state(a, b, rtol, atol):
    """relation of a left cell `a` and a right cell `b` (finite spec numbers) at a tolerance, as np.allclose(left, right)
    sees them: 'same' | 'within' | 'beyond' | 'near' (rounding decides)"""
    fa, fb = _frac(a), _frac(b)
    d = abs(fa - fb)
    if d == 0:
        return "same"
    rt, at = _frac(rtol), _frac(atol)
    if _rounding_flips(fa, fb, rt, at):
        return "near"
    return "beyond" if d > at + rt * abs(fb) else "within"


def _cells_state(xs, ys, rtol, atol):
    """xs, ys: equally long lists of finite spec numbers"""
    states = {_pair_state(a, b, rtol, atol) for a, b in zip(xs, ys)}
    if "near" in states:
        return "near"
    if "beyond" in states:
        return "beyond"
    return "within" if "within" in states else "same"


def _model_cells_near(a, b, rtol, atol):
    """any pair of finite cells of two model arrays (same shape) near the bound?"""
    if a["shape"] != b["shape"] or len(a["cells"]) != len(b["cells"]):
        return False
    rt, at = _frac(rtol), _frac(atol)
    for p, q in zip(a["cells"], b["cells"]):
        if p is None or q is None:
            continue
        fp, fq = C.frac(p), C.frac(q)
        if fp != fq and _rounding_flips(fp, fq, rt, at):
            return True
    return False


def _extra_near(a, b, rtol, atol):
    db = dict((k, v) for k, v in b)
    for k, v in a:
        w = db.get(k)
        if w is None:
            continue
        if v["t"] == "dict" and w["t"] == "dict":
            if _extra_near(v["v"], w["v"], rtol, atol):
                return True
        elif v["t"] == "farr" and w["t"] in ("farr", "xarr"):
            if _model_cells_near(v["a"], w["a"], rtol, atol):
                return True
    return False


def near_boundary(l, r, rtol, atol):
    """does the comparison of the two encoded objects at this tolerance contain a cell pair on which rounding decides?"""
    if l["kind"] != r["kind"]:
        return False
    if l["kind"] == "dm":
        w = {"shape": [len(l["weights"])], "cells": l["weights"]}, {"shape": [len(r["weights"])], "cells": r["weights"]}
        return _model_cells_near(w[0], w[1], rtol, atol) or _model_cells_near(l["matrix"], r["matrix"], rtol, atol)
    if l["kind"] == "result":
        return _model_cells_near(l["values"], r["values"], rtol, atol) or _extra_near(l["extra"], r["extra"], rtol, atol)
    if l["kind"] == "rcmp":
        return any(near_boundary(a[1], b[1], rtol, atol) for a, b in zip(l["ranks"], r["ranks"]))
    return False


# ----------------------------------------------------------------------------- judge


def _is_err(v):
    return isinstance(v, dict) and "err" in v


def _zero_tol(t):
    """is `t` the keyword set of the exact comparisons (rtol=0, atol=0, equal_nan=False, check_dtypes=True)?"""
    return t[0] == 0 and t[1] == 0 and not t[2] and bool(t[3])


def _changed_state(case, t):
    """for relation 'one_member' with a numeric change: state of the changed cells at tolerance t"""
    ch = case.get("change")
    if not ch or ch.get("numeric") is None:
        return "beyond"  # exact members: any change is beyond every tolerance
    if ch.get("exact_dtype"):
        return "beyond" if any(_frac(a) != _frac(b) for a, b in ch["numeric"]) else "same"
    return _cells_state([a for a, _ in ch["numeric"]], [b for _, b in ch["numeric"]], t[0], t[1])


def judge(case, obs, replies):
    out = []

    def prop(what, expected=None, observed=None):
        out.append({"kind": "property", "what": what, "expected": expected, "observed": observed})

    def corr(what, expected=None, observed=None):
        out.append({"kind": "correspondence", "what": what, "expected": expected, "observed": observed})

    l, r = obs["left"], obs["right"]
    rel = case["relation"]
    finite = case.get("finite", True)
    for step, h in zip(case.get("history") or [], obs.get("history") or []):
        if "err" in h:  # deriving a matrix with valid replaced members is not expected to fail (not a comparison: not C17 itself)
            corr(f"history step {step['op']}({sorted(step['kw'])}) raised {h['err']}: {h.get('msg')}", "no exception", h["err"])
    tols = [_default_tol(l)] + [list(t) for t in case["tols"]]
    per = [obs["default"]] + obs["tols"]
    names = ["default kwargs"] + ["rtol=%g atol=%g equal_nan=%s check_dtypes=%s" % tuple(t) for t in case["tols"]]

    # ---------------- (a) nothing raises (AssertionError from assert_* is the helpers' way of saying "different")
    for key in ("eq", "ne", "equals", "eq_rev", "ne_rev"):
        if _is_err(obs[key]):
            prop(f"`{key}` raised {obs[key]['err']}: {obs[key].get('msg')}", "a bool", obs[key]["err"])
    for nm, o in zip(names, per):
        for key in ("aequals", "diff", "assert"):
            if _is_err(o[key]):
                prop(f"`{key}` ({nm}) raised {o[key]['err']}: {o[key].get('msg')}", "no exception", o[key]["err"])
    if any(f["kind"] == "property" for f in out):
        return out  # the other checks need the answers

    eq, ne, equals = obs["eq"], obs["ne"], obs["equals"]
    # ---------------- (e) != is not ==, equals is ==
    if ne != (not eq):
        prop("`x != y` is not `not (x == y)`", not eq, ne)
    if equals != eq:
        prop("`x.equals(y)` differs from `x == y`", eq, equals)
    # ---------------- (c) symmetry of exact equality
    if obs["eq_rev"] is not None:
        if obs["eq_rev"] != eq:
            prop("`==` is not symmetric", {"x == y": eq}, {"y == x": obs["eq_rev"]})
        if obs["ne_rev"] != (not obs["eq_rev"]):
            prop("`y != x` is not `not (y == x)`", not obs["eq_rev"], obs["ne_rev"])
    # ---------------- (d) exact equality implies tolerant equality (all grid tolerances are >= 0)
    if eq:
        for nm, o in zip(names, per):
            if o["aequals"] is not True:
                prop(f"`x == y` but not `x.aequals(y)` ({nm})", True, o["aequals"])
    # ---------------- consistency of one call: aequals <=> no differences; different_types
    for nm, o in list(zip(names, per))[1:]:  # (x.aequals(y) and x.diff(y) have different defaults for equal_nan)
        d = o["diff"]
        if o["aequals"] != (not (d["different_types"] or d["members"])):
            prop(f"aequals disagrees with diff ({nm})", not (d["different_types"] or d["members"]), o["aequals"])
    # ---------------- the exact comparisons ARE the comparison without tolerance (equals "calls aequals() without tolerance":
    #                  rtol=0, atol=0, equal_nan=False, check_dtypes=True): ==, equals answer what aequals / diff answer there
    for nm, t, o in list(zip(names, tols, per))[1:]:
        if _zero_tol(t):
            d = o["diff"]
            if o["aequals"] != eq or (not (d["different_types"] or d["members"])) != eq:
                prop(f"`x == y` disagrees with aequals / diff without tolerance ({nm})", {"x == y": eq},
                     {"aequals": o["aequals"], "diff": d})
    # ---------------- (b) an object equals itself, its copy, an identically constructed object
    if rel in ("identical", "copy", "same_ctor") and (finite or rel == "identical"):
        if eq is not True or ne is not False:
            prop(f"an object is not equal to {'itself' if rel == 'identical' else 'its copy' if rel == 'copy' else 'an identically constructed object'}",
                 True, {"==": eq, "!=": ne})
        for nm, o in zip(names, per):
            if o["diff"]["members"] or o["diff"]["different_types"]:
                prop(f"diff reports differences for a {rel} pair ({nm})", [], o["diff"])
            if o["assert"] != "pass":
                prop(f"assert_* raised for a {rel} pair ({nm})", "pass", o["assert"])
    # ---------------- unrelated types
    if rel == "types":
        if eq is not False:
            prop("objects of unrelated types compare equal", False, eq)
        for nm, o in zip(names, per):
            if o["diff"]["different_types"] is not True or o["aequals"] is not False:
                prop(f"unrelated types: diff does not say different_types ({nm})", True, o["diff"])
            if o["diff"].get("has_differences") is False:
                prop(f"unrelated types: diff reports no differences ({nm})", True, o["diff"])
            if o["assert"] != "AssertionError":
                prop(f"unrelated types: assert_* did not raise AssertionError ({nm})", "AssertionError", o["assert"])
    # ---------------- different shape / length
    if rel == "shape":
        must = case["must_name"]
        if eq is not False:
            prop("objects of different shape / length compare equal", False, eq)
        for nm, o in zip(names, per):
            if o["aequals"] is not False or not set(must) <= set(o["diff"]["members"]):
                prop(f"different shape / length: not unequal, or diff does not name {must} ({nm})", must, o["diff"])
        if obs["default"]["assert"] != "AssertionError":
            prop("different shape / length: assert_* did not raise AssertionError", "AssertionError", obs["default"]["assert"])
    # ---------------- (f) exactly one member changed beyond tolerance: unequal, and diff names exactly that member
    if rel == "one_member":
        member = case["member"]
        ch = case.get("change") or {}
        really = _changed_state(case, [0.0, 0.0]) != "same"
        if really and eq is not False:
            prop(f"only `{member}` was changed, but `x == y`", False, eq)
        if really and member != "dtypes":
            # == is equals: zero tolerance, dtypes checked
            pass
        for nm, t, o in zip(names, tols, per):
            st = _changed_state(case, t)
            if st != "beyond":
                continue
            if member == "dtypes" and not t[3]:
                continue  # dtypes are looked at only with check_dtypes=True
            if o["aequals"] is not False or o["diff"]["members"] != [member] or o["diff"]["different_types"]:
                prop(f"only `{member}` was changed beyond tolerance, diff names {o['diff']['members']} / aequals={o['aequals']} ({nm})",
                     [member], o["diff"])
        if _changed_state(case, _default_tol(l)) == "beyond" and member != "dtypes":
            if obs["default"]["assert"] != "AssertionError":
                prop(f"only `{member}` was changed beyond the default tolerance, assert_* did not raise AssertionError",
                     "AssertionError", obs["default"]["assert"])

    # ---------------- the same pair asked from the other side (cases observed both ways)
    if "tols_rev" in obs:
        per_rev = [obs["default_rev"]] + obs["tols_rev"]
        bad = False
        if _is_err(obs["equals_rev"]):
            prop(f"`y.equals(x)` raised {obs['equals_rev']['err']}: {obs['equals_rev'].get('msg')}", "a bool", obs["equals_rev"]["err"])
            bad = True
        for nm, o in zip(names, per_rev):
            for key in ("aequals", "diff", "assert"):
                if _is_err(o[key]):
                    prop(f"`{key}` of (y, x) ({nm}) raised {o[key]['err']}: {o[key].get('msg')}", "no exception", o[key]["err"])
                    bad = True
        if not bad:
            eq_rev = obs["eq_rev"]
            if obs["equals_rev"] != eq_rev:
                prop("`y.equals(x)` differs from `y == x`", eq_rev, obs["equals_rev"])
            if obs["equals_rev"] != equals:
                prop("`equals` is not symmetric", {"x.equals(y)": equals}, {"y.equals(x)": obs["equals_rev"]})
            if eq_rev:
                for nm, o in zip(names, per_rev):
                    if o["aequals"] is not True:
                        prop(f"`y == x` but not `y.aequals(x)` ({nm})", True, o["aequals"])
            for nm, o in list(zip(names, per_rev))[1:]:
                d = o["diff"]
                if o["aequals"] != (not (d["different_types"] or d["members"])):
                    prop(f"aequals disagrees with diff on (y, x) ({nm})", not (d["different_types"] or d["members"]), o["aequals"])
            for nm, t, o in list(zip(names, tols, per_rev))[1:]:
                if _zero_tol(t):
                    d = o["diff"]
                    if o["aequals"] != eq_rev or (not (d["different_types"] or d["members"])) != eq_rev:
                        prop(f"`y == x` disagrees with aequals / diff without tolerance ({nm})", {"y == x": eq_rev},
                             {"aequals": o["aequals"], "diff": d})
            if rel == "one_member" and (case.get("change") or {}).get("numeric") is not None \
                    and _changed_state(case, [0.0, 0.0]) != "same":
                # a numeric member was changed by a non-zero amount: without tolerance (|a-b| <= 0 from either side) the pair
                # is unequal from the other side too, and diff names that member
                member = case["member"]
                if eq_rev is not False:
                    prop(f"only `{member}` was changed, but `y == x`", False, eq_rev)
                for nm, t, o in zip(names, tols, per_rev):
                    if t[0] == 0 and t[1] == 0 and (
                            o["aequals"] is not False or o["diff"]["members"] != [member] or o["diff"]["different_types"]):
                        prop(f"only `{member}` was changed (no tolerance), diff(y, x) names {o['diff']['members']} / "
                             f"aequals={o['aequals']} ({nm})", [member], o["diff"])
            exact_change = rel == "one_member" and (case.get("change") or {}).get("numeric") is None
            if exact_change:
                # a member compared exactly was changed: the pair is unequal from either side, and diff names that member
                member = case["member"]
                if eq_rev is not False:
                    prop(f"only `{member}` was changed, but `y == x`", False, eq_rev)
                for nm, t, o in zip(names, tols, per_rev):
                    if member == "dtypes" and not t[3]:
                        continue
                    if o["aequals"] is not False or o["diff"]["members"] != [member] or o["diff"]["different_types"]:
                        prop(f"only `{member}` was changed, diff(y, x) names {o['diff']['members']} / aequals={o['aequals']} ({nm})",
                             [member], o["diff"])
            if rel == "subtype" or exact_change:
                # the two objects hold the same values in every member: whatever the answer to "is a value of another
                # (sub)type a change of that member", it is the same answer from both sides, and no other member is named
                member = case["member"]
                for nm, o, orv in zip(names, per, per_rev):
                    if o["aequals"] != orv["aequals"]:
                        prop(f"aequals is not symmetric on a pair holding the same values ({nm})",
                             {"x.aequals(y)": o["aequals"]}, {"y.aequals(x)": orv["aequals"]})
                    if (o["diff"]["members"], o["diff"]["different_types"]) != (orv["diff"]["members"], orv["diff"]["different_types"]):
                        prop(f"diff is not symmetric on a pair holding the same values ({nm})", {"diff(x, y)": o["diff"]},
                             {"diff(y, x)": orv["diff"]})
                    for dd in (o["diff"], orv["diff"]):
                        if dd["different_types"] or not set(dd["members"]) <= {member}:
                            prop(f"only a value of `{member}` differs (in type), diff names {dd['members']} ({nm})", [member], dd)
                    if o["assert"] != orv["assert"]:
                        prop(f"assert_* is not symmetric on a pair holding the same values ({nm})", o["assert"], orv["assert"])

    if case.get("oracle_only"):
        obs["_skipped_near"] = 0
        return out  # no correspondence: the model has no notion of these value types

    # ---------------- correspondence: model vs implementation
    k = 0
    skipped = 0
    for nm, t, o in zip(names, tols, per):
        rd, rc = replies[k], replies[k + 1]
        k += 2
        if near_boundary(l, r, t[0], t[1]):
            skipped += 1
            continue
        if "err" in rd:
            corr(f"model diff raises {rd['err']}, the implementation answers ({nm})", rd, o["diff"])
            continue
        if rd["different_types"] != o["diff"]["different_types"] or rd["members"] != o["diff"]["members"]:
            corr(f"diff: model vs implementation ({nm})", rd, o["diff"])
        if rc.get("aequals") != o["aequals"]:
            corr(f"aequals: model vs implementation ({nm})", rc.get("aequals"), o["aequals"])
        if (rc.get("eq"), rc.get("ne"), rc.get("equals")) != (eq, ne, equals):
            corr("==, !=, equals: model vs implementation", [rc.get("eq"), rc.get("ne"), rc.get("equals")], [eq, ne, equals])
        # assert_*: passes iff no difference ... except assert_rcmp_equals, which re-checks at default tolerance
        nodiff = not (rd["different_types"] or rd["members"])
        expect = "pass" if nodiff else "AssertionError"
        if not nodiff and l["kind"] == "rcmp" and r["kind"] == "rcmp" and len(l["ranks"]) == len(r["ranks"]):
            base = 2 * len(tols) + 1
            same = True
            for i, ((ln, lr), (rn, rr)) in enumerate(_rank_pairs(obs)):
                rp = replies[base + i]
                if ln != rn or "err" in rp or rp["different_types"] or rp["members"]:
                    same = False
                if near_boundary(lr, rr, 1e-05, 1e-08):
                    same = None
                    break
            if same is None:
                continue
            expect = "pass" if same else "AssertionError"
        if o["assert"] != expect:
            corr(f"assert_*: model vs implementation ({nm})", expect, o["assert"])
    rrev = replies[k]
    k += 1
    if obs["eq_rev"] is not None and (rrev.get("eq"), rrev.get("ne")) != (obs["eq_rev"], obs["ne_rev"]):
        corr("y == x, y != x: model vs implementation", [rrev.get("eq"), rrev.get("ne")], [obs["eq_rev"], obs["ne_rev"]])
    k += len(_rank_pairs(obs))
    # the kept models of the earlier code must reproduce the recorded defect
    for ver in ("v0", "v1"):
        if ver + "_expect" in case:
            got = [_strip(replies[k]), _strip(replies[k + 1])]
            k += 2
            if got != case[ver + "_expect"]:
                corr(f"model `{ver}` does not reproduce the recorded behaviour of the code before the repair", case[ver + "_expect"], got)
    obs["_skipped_near"] = skipped
    return out


def _strip(rep):
    return {"err": rep["err"]} if "err" in rep else {"different_types": rep["different_types"], "members": rep["members"]}


def nontrivial(case, obs):
    return case["relation"] != "identical"


def tags(case, obs):
    t = ["kind:" + obs["left"]["kind"], "relation:" + case["relation"]]
    if case["relation"] == "one_member":
        t.append("member:%s:%s" % (obs["left"]["kind"], case["member"]))
        ch = case.get("change") or {}
        if ch.get("numeric") is not None:
            t.append("numeric-change:" + ch.get("design", "?"))
    if case.get("width"):
        t.append("dtype-width:" + case["width"])
    if case.get("sub"):
        t.append("extra-value-type:" + case["sub"])
    if case["relation"] == "types":
        t.append("other:" + obs["right"]["kind"] + ":" + str(obs["right"].get("type")))
        if case.get("awkward"):
            t.append("awkward:" + case["awkward"])
            t.append("awkward-holder:" + case["holder"])
    if case["relation"] == "shape":
        t.append("shape:" + case.get("shape_note", "?"))
    if case.get("history"):
        t.append("history:%d-steps" % len(case["history"]))
        for step in case["history"]:
            t.append("history:%s:%s" % (step["op"], "+".join(sorted(step["kw"]))))
        t.append("after-history:" + case["relation"] + ":" + str(case["right"].get("how", case["right"].get("o"))))
    if case.get("xshape"):
        t.append("extra-array-shapes:" + case["xshape"])
    if case.get("tiny"):
        t.append("tiny-float-change:" + case["tiny"])
    if case.get("altperm"):
        t.append("alternatives-reordered:" + case["altperm"])
    if case.get("keynames"):
        t.append("extra-same-count-other-key-names:" + case["keynames"])
    if case.get("rankonly"):
        t.append("comparator-rank-differs-only-in:" + case["rankonly"])
    if not case.get("finite", True):
        t.append("has-nan")
    if obs.get("_skipped_near"):
        t.append("near-boundary-skipped")
    if obs["left"]["kind"] == "result" and obs["left"]["values"]["obj"] or obs["left"]["kind"] == "dm" and obs["left"]["matrix"]["obj"]:
        t.append("object-dtype")
    for tt in case["tols"]:
        t.append("tol:rtol=%g,atol=%g" % (tt[0], tt[1]))
    return t


# ----------------------------------------------------------------------------- generators


def _fval(rng, family):
    if family == "dyadic":
        return rng.randint(1, 40) / 8
    v = math.ldexp(rng.uniform(0.5, 1.0), rng.randint(-6, 9))
    return -v if rng.random() < 0.25 else v


def gen_dm(rng, m=None, n=None, nan=False, allow_special=True):
    m = rng.choice([0, 1, 1, 2, 3, 4, 5]) if m is None else m
    n = rng.choice([0, 1, 2, 3, 4]) if n is None else n
    family = rng.choice(["dyadic", "float"])
    kinds = []
    for j in range(n):
        p = rng.random()
        kinds.append("int" if p < 0.25 else ("bool" if (p < 0.32 and allow_special) else "float"))
    rows = []
    for i in range(m):
        row = []
        for j in range(n):
            if kinds[j] == "int":
                row.append(rng.randint(-5, 40))
            elif kinds[j] == "bool":
                row.append(rng.random() < 0.5)
            else:
                row.append(_fval(rng, family))
        rows.append(row)
    spec = {"o": "dm", "ctor": "mkdm" if m > 0 else "zeros", "matrix": rows,
            "objectives": [rng.choice([1, -1]) for _ in range(n)],
            "weights": [_fval(rng, family) if rng.random() < 0.8 else float(rng.randint(1, 4)) for _ in range(n)],
            "alternatives": rng.sample(ALT_POOL, m) if rng.random() < 0.9 else list(range(m)),
            "criteria": rng.sample(CRIT_POOL, n) if rng.random() < 0.9 else list(range(n)),
            "colkinds": kinds}
    if m == 0 and n > 0 and allow_special and rng.random() < 0.3:
        spec["ctor"] = "empty_df"
        spec["alternatives"] = []
    if nan and m > 0 and n > 0:
        fl = [j for j in range(n) if kinds[j] == "float"]
        if fl and rng.random() < 0.7:
            spec["matrix"][rng.randrange(m)][rng.choice(fl)] = "nan"
        else:
            spec["weights"][rng.randrange(n)] = "nan"
    return spec


def _ranking(rng, n):
    if n == 0:
        return []
    k = rng.randint(1, n)
    v = list(range(1, k + 1)) + [rng.randint(1, k) for _ in range(n - k)]
    rng.shuffle(v)
    return v


def gen_extra(rng, n, nan=False, depth=0):
    ex = {}
    family = rng.choice(["dyadic", "float"])
    for key in rng.sample(["score", "s", "matrix_c", "rank_by", "name", "outrank", "ideal", "q", "nested", "obj"], rng.randint(0, 3)):
        p = rng.random()
        if key in ("score", "s", "ideal") or p < 0.3:
            ln = n if rng.random() < 0.8 else rng.randint(0, 3)
            ex[key] = {"t": "farr", "shape": [ln], "data": [_fval(rng, family) for _ in range(ln)]}
        elif key == "matrix_c":
            a, b = rng.randint(1, 3), rng.randint(1, 3)
            ex[key] = {"t": "farr", "shape": [a, b], "data": [_fval(rng, family) for _ in range(a * b)]}
        elif key == "rank_by":
            ex[key] = {"t": "int", "v": rng.randint(0, 3)}
        elif key == "name":
            ex[key] = {"t": "str", "v": rng.choice(["a", "b", "euclidean", ""])}
        elif key == "outrank":
            ex[key] = {"t": "barr", "shape": [n], "data": [rng.random() < 0.5 for _ in range(n)]}
        elif key == "q":
            ex[key] = rng.choice([{"t": "float", "v": _fval(rng, family)},
                                  {"t": "iarr", "shape": [n], "data": [rng.randint(0, 9) for _ in range(n)]}])
        elif key == "obj":
            ex[key] = {"t": "oarr", "shape": [n], "data": [rng.choice([rng.randint(0, 5), _fval(rng, family), True]) for _ in range(n)]}
        elif key == "nested" and depth < 2:
            ex[key] = {"t": "dict", "v": gen_extra(rng, n, depth=depth + 1)}
        else:
            ex[key] = {"t": "int", "v": rng.randint(0, 9)}
    if nan:
        fa = [k for k, e in ex.items() if e["t"] == "farr" and e["data"]]
        if fa:
            e = ex[rng.choice(fa)]
            e["data"][rng.randrange(len(e["data"]))] = "nan"
        else:
            ex["score"] = {"t": "farr", "shape": [2], "data": [1.0, "nan"]}
    return ex


def gen_result(rng, n=None, typ=None, alts=None, nan=False):
    n = rng.choice([0, 1, 2, 3, 3, 4, 5]) if n is None else n
    typ = typ or rng.choice(["rank", "rank", "rank", "kernel"])
    alts = list(alts) if alts is not None else (rng.sample(ALT_POOL, n) if rng.random() < 0.9 else list(range(n)))
    if typ == "rank":
        values = _ranking(rng, n)
        vd = rng.choice(["list", "list", "int", "float", "object"])
        if vd == "float":
            values = [float(v) for v in values]
    else:
        values = [rng.random() < 0.5 for _ in range(n)]
        vd = "bool"
    return {"o": "result", "type": typ, "method": rng.choice(METHODS), "alternatives": alts, "values": values, "vdtype": vd,
            "extra": gen_extra(rng, n, nan=nan)}


def gen_rcmp(rng, n=None, k=None, nan=False):
    n = rng.choice([0, 1, 2, 3, 4]) if n is None else n
    k = k or rng.randint(2, 4)
    alts = rng.sample(ALT_POOL, n)
    names = rng.sample(["x", "y", "z", "w", "TOPSIS", "a_1", "a_2"], k)
    ranks = []
    for i, nm in enumerate(names):
        a = list(alts)
        if rng.random() < 0.3:
            rng.shuffle(a)
        ranks.append([nm, gen_result(rng, n=n, typ="rank", alts=a, nan=(nan and i == 0))])
    return {"o": "rcmp", "ranks": ranks}


def gen_obj(rng, kind, nan=False, **kw):
    if kind == "dm":
        return gen_dm(rng, nan=nan, **kw)
    if kind == "result":
        return gen_result(rng, nan=nan, **kw)
    return gen_rcmp(rng, nan=nan, **kw)


def _design(rng, positive_bound=False):
    while True:
        rt, at = rng.choice(GRID), rng.choice(GRID)
        if not positive_bound or rt > 0 or at > 0:
            return rt, at


def _perturb(rng, l, beyond):
    """a new value `r` for the right-hand object with |l - r| = 2.7x (beyond) / 0.37x (within) the bound
    atol + rtol*|r| of a design tolerance drawn from the grid (NumPy's bound is on the RIGHT operand).
    returns (r, design tolerance, note) or None when no such value exists"""
    rt, at = _design(rng, positive_bound=not beyond)
    f = 2.7 if beyond else 0.37
    base = at + rt * abs(l)
    if base == 0:
        if not beyond:
            return None
        d = max(abs(l), 1.0) * rng.choice([1e-12, 1e-6, 0.5])
        r = l + d if rng.random() < 0.5 else l - d
    else:
        cands = []
        d_in = f * base / (1 + f * rt)  # towards zero, same sign
        if l != 0 and d_in <= abs(l):
            cands.append(l - math.copysign(d_in, l))
        if f * rt < 1:  # away from zero
            cands.append(l + math.copysign(f * base / (1 - f * rt), l if l != 0 else 1.0))
        cands = [c for c in cands if c != l]
        if not cands:
            return None
        r = rng.choice(cands)
    if r == l:
        return None
    return r, (rt, at), ("beyond" if beyond else "within")


def _tols(ctx, rng, design=None, check_dtypes=None):
    ts = []
    if design is not None:
        ts.append([design[0], design[1], rng.random() < 0.5, (rng.random() < 0.5) if check_dtypes is None else check_dtypes])
    if ctx.thorough and rng.random() < 0.02:
        for rt in GRID:
            for at in GRID:
                for en in (False, True):
                    for cd in (False, True):
                        ts.append([rt, at, en, cd])
        return ts
    for _ in range(ctx.n(3, 5)):
        ts.append([rng.choice(GRID), rng.choice(GRID), rng.random() < 0.5,
                   (rng.random() < 0.5) if check_dtypes is None else check_dtypes])
    ts.append([0.0, 0.0, False, True])
    return ts


def _change_dm(rng, spec, member):
    """right spec = left spec with exactly `member` changed; returns (right, change) or None"""
    right = _copy.deepcopy(spec)
    m, n = len(spec["matrix"]), len(spec["criteria"])
    ch = {}
    if member == "criteria":
        if n == 0:
            return None
        j = rng.randrange(n)
        right["criteria"][j] = "renamed" if isinstance(spec["criteria"][j], str) else 99
        if n > 1 and rng.random() < 0.3:  # or: the same names in another order
            right["criteria"] = list(spec["criteria"])
            right["criteria"][0], right["criteria"][1] = right["criteria"][1], right["criteria"][0]
    elif member == "alternatives":
        if m == 0:
            return None
        i = rng.randrange(m)
        right["alternatives"][i] = "renamed" if isinstance(spec["alternatives"][i], str) else 99
    elif member == "objectives":
        if n == 0:
            return None
        j = rng.randrange(n)
        right["objectives"][j] = -spec["objectives"][j]
    elif member == "weights":
        if n == 0:
            return None
        j = rng.randrange(n)
        p = _perturb(rng, float(spec["weights"][j]), rng.random() < 0.6)
        if p is None:
            return None
        right["weights"][j] = p[0]
        ch = {"numeric": [[float(spec["weights"][j]), p[0]]], "design_tol": list(p[1]), "design": p[2]}
    elif member == "matrix":
        if n == 0 or m == 0:
            return None
        i, j = rng.randrange(m), rng.randrange(n)
        kind = spec["colkinds"][j]
        objdtype = "bool" in spec["colkinds"] and len(set(spec["colkinds"])) > 1
        if kind == "bool":
            if len(set(spec["colkinds"])) == 1 or True:
                # flipping a boolean changes the cell by 1
                right["matrix"][i][j] = not spec["matrix"][i][j]
                ch = {"numeric": [[int(spec["matrix"][i][j]), int(right["matrix"][i][j])]], "design": "bool-flip",
                      "exact_dtype": objdtype}
        elif kind == "int":
            right["matrix"][i][j] = spec["matrix"][i][j] + rng.choice([-3, -1, 1, 2])
            ch = {"numeric": [[spec["matrix"][i][j], right["matrix"][i][j]]], "design": "int-step", "exact_dtype": objdtype}
        else:
            p = _perturb(rng, float(spec["matrix"][i][j]), rng.random() < 0.6)
            if p is None:
                return None
            right["matrix"][i][j] = p[0]
            ch = {"numeric": [[float(spec["matrix"][i][j]), p[0]]], "design_tol": list(p[1]), "design": p[2],
                  "exact_dtype": objdtype}
    elif member == "dtypes":
        ints = [j for j in range(n) if spec["colkinds"][j] == "int"]
        if not ints or m == 0 or "bool" in spec["colkinds"]:
            return None
        j = rng.choice(ints)
        for i in range(m):
            right["matrix"][i][j] = float(spec["matrix"][i][j])
        right["colkinds"][j] = "float"
    return right, ch


INT_WIDTHS = ["int64", "int32", "int16", "int8"]
UINT_WIDTHS = ["uint64", "uint32", "uint16", "uint8"]
FLOAT_WIDTHS = ["float64", "float32"]


def _f32(v):
    """the float32 nearest to v, as a Python float (so that both widths hold the same value)"""
    import struct

    return struct.unpack("f", struct.pack("f", float(v)))[0]


def _width_pair(rng, spec):
    """(left, right, note): the same decision matrix twice, ONE criterion's dtype differing only in its width (int64 / int32 /
    int16 / int8, uint*, float64 / float32); other criteria may carry a non-default width on both sides.  The right one is
    built by mkdm(..., dtypes=) or by left.copy(dtypes=).  None when the matrix has no rows / columns / a boolean column."""
    m, n = len(spec["matrix"]), len(spec["criteria"])
    if m == 0 or n == 0 or "bool" in spec["colkinds"]:
        return None
    left = _copy.deepcopy(spec)
    ints = [c for c in range(n) if spec["colkinds"][c] == "int"]
    j = rng.choice(ints) if ints and rng.random() < 0.75 else rng.randrange(n)

    def widths(c):
        if spec["colkinds"][c] == "int":
            if all(spec["matrix"][i][c] >= 0 for i in range(m)) and rng.random() < 0.25:
                return UINT_WIDTHS
            return INT_WIDTHS
        return FLOAT_WIDTHS

    dts = ["int64" if k == "int" else "float64" for k in spec["colkinds"]]
    for c in range(n):  # the same non-default width on both sides
        if c != j and rng.random() < 0.3:
            dts[c] = rng.choice(widths(c)[1:])
    ws = widths(j)
    a, b = rng.sample(ws, 2)
    if rng.random() < 0.5 and ws[0] not in (a, b):
        a = ws[0]  # most often against the default width
        if rng.random() < 0.5:
            a, b = b, a
    ldt, rdt = list(dts), list(dts)
    ldt[j], rdt[j] = a, b
    for c in range(n):
        if "float32" in (ldt[c], rdt[c]):
            for i in range(m):
                left["matrix"][i][c] = _f32(left["matrix"][i][c])
    default = ["int64" if k == "int" else "float64" for k in spec["colkinds"]]
    if ldt != default or rng.random() < 0.5:
        left["dtypes"] = ldt
    if rng.random() < 0.5:
        right = {"o": "copy", "how": "dm.copy", "dtypes": rdt}
    else:
        right = _copy.deepcopy(left)
        right.pop("dtypes", None)
        if rdt != default or rng.random() < 0.5:
            right["dtypes"] = rdt
    return left, right, "%s|%s" % (a, b)


def _subtype_pair(rng, spec):
    """(left, right, note): the same result twice, ONE value of extra (top level or inside a nested dictionary) holding the
    same value as another concrete type on one side - most often a subclass of the other side's type (float / np.float64,
    int / bool, dict / OrderedDict, str / a str subclass, ndarray / an ndarray subclass), either side being the subclass"""
    left = _copy.deepcopy(spec)
    n = len(spec["alternatives"])
    target = left["extra"]
    path = []
    if rng.random() < 0.3:
        left["extra"]["sub"] = {"t": "dict", "v": gen_extra(rng, n, depth=1)}
        target = left["extra"]["sub"]["v"]
        path = ["sub"]
    kind = rng.choice(["float", "float", "int", "int01", "int01", "str", "dict", "dict", "farr", "iarr", "barr"])
    family = rng.choice(["dyadic", "float"])
    if kind == "float":
        e = {"t": "float", "v": rng.choice([_fval(rng, family), float(rng.randint(0, 3))])}
    elif kind == "int":
        e = {"t": "int", "v": rng.randint(-3, 9)}
    elif kind == "int01":
        e = {"t": "int", "v": rng.choice([0, 1])}
    elif kind == "str":
        e = {"t": "str", "v": rng.choice(["a", "b", "euclidean", "", "1"])}
    elif kind == "dict":
        e = {"t": "dict", "v": gen_extra(rng, n, depth=1) if rng.random() < 0.8 else {}}
    elif kind == "farr":
        e = {"t": "farr", "shape": [n], "data": [_fval(rng, family) for _ in range(n)]}
    elif kind == "iarr":
        e = {"t": "iarr", "shape": [n], "data": [rng.randint(0, 9) for _ in range(n)]}
    else:
        e = {"t": "barr", "shape": [n], "data": [rng.random() < 0.5 for _ in range(n)]}
    key = rng.choice(["tv", "tv", "score", "q", "name", "k"])
    types = AS_TYPES[kind]
    if rng.random() < 0.75:
        a = types[0]
        b = rng.choice([t for t in types if (a, t) in SUBCLASS_OF])
    else:
        a, b = rng.sample(types, 2)
    if rng.random() < 0.5:
        a, b = b, a
    target[key] = dict(e, **{"as": a})
    right = _copy.deepcopy(left)
    t = right["extra"]
    for p in path:
        t = t[p]["v"]
    t[key]["as"] = b
    return left, right, "%s:%s|%s" % (kind, a, b)


def _dm_dtypes(spec):
    """the dtypes mkdm gives the criteria of a generated matrix without boolean columns"""
    return ["int64" if k == "int" else "float64" for k in spec["colkinds"]]


def _copy_step(rng, spec, member, exact=False):
    """keyword arguments {member: value} for dm.copy(**kw) that replace exactly `member` of the matrix built from `spec`
    (matrices without boolean columns); returns (kw, change) or None.  `exact`: the derived matrix is to be compared as a
    one-member change (dtypes: the same values in a wider kind)"""
    m, n = len(spec["matrix"]), len(spec["criteria"])
    if member == "dtypes":
        if m == 0 or n == 0 or "bool" in spec["colkinds"]:
            return None
        dts = _dm_dtypes(spec)
        ints = [j for j in range(n) if spec["colkinds"][j] == "int"]
        if exact:
            if not ints:
                return None
            dts[rng.choice(ints)] = "float64"  # the same whole numbers held as floats
        else:
            j = rng.randrange(n)
            dts[j] = rng.choice(["float64", "int32", "int16"]) if spec["colkinds"][j] == "int" else "float32"
        return {"dtypes": dts}, {}
    r = _change_dm(rng, spec, member)
    if r is None:
        return None
    right, ch = r
    return {member: right[member]}, ch


def _history(rng, spec, first):
    """1-3 things done with the matrix before the comparison; the first one replaces member `first`"""
    steps = []
    members = [first] + [rng.choice(DM_MEMBERS) for _ in range(rng.choice([0, 0, 1, 2]))]
    for i, mb in enumerate(members):
        r = _copy_step(rng, spec, mb)
        if r is None:
            continue
        kw = dict(r[0])
        if rng.random() < 0.25:  # several members replaced at once
            r2 = _copy_step(rng, spec, rng.choice(DM_MEMBERS))
            if r2 is not None:
                kw.update(r2[0])
        steps.append({"op": "copy" if rng.random() < 0.85 else "to_dict_update", "kw": kw})
    return steps


XKEYS = ["info", "idx", "mask", "q", "k", "tv"]


def _xshape_pair(rng, spec):
    """(left, right, note): the same result twice, ONE value of extra (top level or inside a nested dictionary) being an
    int / bool / object ndarray (compared exactly) of a DIFFERENT SHAPE on each side: shapes that broadcast against each other
    ([1] | [k], 0-d | 1-d, [k,k] | [k], [0] | [1] ...) - most often holding one repeated value, so that an elementwise
    broadcasting comparison would see nothing but equal cells - or shapes that do not broadcast ([k] | [k+1], [0] | [k], ...)"""
    left = _copy.deepcopy(spec)
    n = len(spec["alternatives"])
    target, path = left["extra"], []
    if rng.random() < 0.3:
        left["extra"]["sub"] = {"t": "dict", "v": gen_extra(rng, n, depth=1)}
        target, path = left["extra"]["sub"]["v"], ["sub"]
    k = rng.choice([2, 3, 3, 4, max(n, 2)])
    if rng.random() < 0.7:
        sa, sb = rng.choice([([1], [k]), ([1], [k]), ([], [k]), ([], [1]), ([k, k], [k]), ([2, 2], [2]), ([1, k], [k]),
                             ([k, 1], [k]), ([k, 1], [1, k]), ([0], [1]), ([0], []), ([1, 1], [1]), ([], [1, 1]),
                             ([2, k], [k]), ([1], [1, 1])])
        note = "broadcast"
    else:
        sa, sb = rng.choice([([k], [k + 1]), ([k + 1], [k]), ([k], [k + 2]), ([0], [k]), ([2, 3], [2]), ([k, k + 1], [k]),
                             ([k], [2, k + 1]), ([3], [2])])
        note = "no-broadcast"
    t = rng.choice(["iarr", "iarr", "iarr", "barr", "barr", "oarr"])

    def val():
        return (rng.random() < 0.5) if t == "barr" else rng.randint(0, 9)

    def size(sh):
        out = 1
        for d in sh:
            out *= d
        return out

    if rng.random() < 0.8:
        v = val()
        da, db = [v] * size(sa), [v] * size(sb)
        note += ":all-equal"
    else:
        pool = [val() for _ in range(max(size(sa), size(sb), 1))]
        da, db = pool[:size(sa)], pool[:size(sb)]
        note += ":prefix"
    a, b = {"t": t, "shape": list(sa), "data": da}, {"t": t, "shape": list(sb), "data": db}
    if rng.random() < 0.5:
        a, b = b, a
    key = rng.choice(XKEYS)
    target[key] = a
    right = _copy.deepcopy(left)
    tt = right["extra"]
    for p in path:
        tt = tt[p]["v"]
    tt[key] = b
    return left, right, "%s:%s:%s|%s%s" % (t, note, "x".join(map(str, a["shape"])) or "0-d", "x".join(map(str, b["shape"])) or "0-d",
                                            ":nested" if path else "")


def _change_extra(rng, ex, n):
    """exactly the extras changed; returns (new extra, change) or None"""
    new = _copy.deepcopy(ex)
    keys = list(ex)
    how = rng.choice(["cell", "cell", "cell", "int", "str", "addkey", "dropkey", "nested", "length", "type", "xcell"])
    if how == "cell":
        fa = [k for k in keys if ex[k]["t"] == "farr" and ex[k]["data"]]
        if not fa:
            new["score"] = {"t": "farr", "shape": [max(n, 1)], "data": [_fval(rng, "float") for _ in range(max(n, 1))]}
            ex = _copy.deepcopy(new)
            ex_added = True
            fa = ["score"]
        else:
            ex_added = False
        k = rng.choice(fa)
        i = rng.randrange(len(ex[k]["data"]))
        p = _perturb(rng, float(ex[k]["data"][i]), rng.random() < 0.6)
        if p is None:
            return None
        new[k]["data"][i] = p[0]
        return (ex if ex_added else None), new, {"numeric": [[float(ex[k]["data"][i]), p[0]]], "design_tol": list(p[1]), "design": p[2]}
    if how == "int":
        ik = [k for k in keys if ex[k]["t"] == "int"]
        if not ik:
            return None
        k = rng.choice(ik)
        new[k]["v"] = ex[k]["v"] + 1
        return None, new, {}
    if how == "str":
        sk = [k for k in keys if ex[k]["t"] == "str"]
        if not sk:
            return None
        new[sk[0]]["v"] = ex[sk[0]]["v"] + "'"
        return None, new, {}
    if how == "addkey":
        new["extra_key"] = {"t": "int", "v": 1}
        return None, new, {}
    if how == "dropkey":
        if not keys:
            return None
        del new[rng.choice(keys)]
        return None, new, {}
    if how == "nested":
        dk = [k for k in keys if ex[k]["t"] == "dict"]
        if not dk:
            return None
        r = _change_extra(rng, ex[dk[0]]["v"], n)
        if r is None or r[0] is not None:
            return None
        new[dk[0]]["v"] = r[1]
        return None, new, r[2]
    if how == "length":
        fa = [k for k in keys if ex[k]["t"] == "farr" and len(ex[k]["shape"]) == 1]
        if not fa:
            return None
        k = rng.choice(fa)
        ln = len(ex[k]["data"])
        newlen = rng.choice([x for x in (0, 1, ln + 1, max(ln - 1, 0)) if x != ln])
        # the shorter array repeats the first value: a broadcasting comparison would call them equal
        base = ex[k]["data"][0] if ln else 1.0
        new[k] = {"t": "farr", "shape": [newlen], "data": (ex[k]["data"] + [base] * newlen)[:newlen] if newlen > ln
                  else ex[k]["data"][:newlen]}
        if newlen == 1 and ln > 1 and rng.random() < 0.5:
            # hazard: left all equal to the single right value
            left = _copy.deepcopy(ex)
            left[k]["data"] = [base] * ln
            new[k] = {"t": "farr", "shape": [1], "data": [base]}
            for kk in new:
                if kk != k:
                    new[kk] = _copy.deepcopy(left[kk])
            return left, new, {}
        return None, new, {}
    if how == "type":
        ik = [k for k in keys if ex[k]["t"] == "int"]
        if not ik:
            return None
        new[ik[0]] = {"t": "float", "v": float(ex[ik[0]]["v"])}
        return None, new, {}
    if how == "xcell":
        xk = [k for k in keys if ex[k]["t"] in ("iarr", "oarr") and ex[k]["data"]]
        if not xk:
            return None
        k = rng.choice(xk)
        i = rng.randrange(len(ex[k]["data"]))
        v = ex[k]["data"][i]
        new[k]["data"][i] = (int(v) + 1) if not isinstance(v, float) else v + 0.5
        return None, new, {}
    return None


def _change_result(rng, spec, member):
    left = spec
    right = _copy.deepcopy(spec)
    n = len(spec["alternatives"])
    ch = {}
    if member == "method":
        right["method"] = spec["method"] + "2"
    elif member == "alternatives":
        if n == 0:
            return None
        i = rng.randrange(n)
        right["alternatives"][i] = "renamed" if isinstance(spec["alternatives"][i], str) else 99
    elif member == "values":
        if n == 0:
            return None
        if spec["type"] == "kernel":
            i = rng.randrange(n)
            right["values"][i] = not spec["values"][i]
            ch = {"numeric": [[int(spec["values"][i]), int(right["values"][i])]], "design": "bool-flip"}
        else:
            # another valid ranking of the same length
            for _ in range(20):
                v = _ranking(rng, n)
                if v != [int(x) for x in spec["values"]]:
                    break
            else:
                return None
            right["values"] = [float(x) for x in v] if spec["vdtype"] == "float" else v
            ch = {"numeric": [[a, b] for a, b in zip(spec["values"], right["values"])], "design": "other-ranking",
                  "exact_dtype": spec["vdtype"] == "object" or (spec["vdtype"] == "list" and n == 0)}
    elif member == "extra_":
        r = None
        for _ in range(12):
            r = _change_extra(rng, spec["extra"], n)
            if r is not None:
                break
        if r is None:
            return None
        newleft, newextra, ch = r
        if newleft is not None:
            left = _copy.deepcopy(spec)
            left["extra"] = newleft
        right["extra"] = newextra
    return left, right, ch


# ---- pairs differing in ONE float member by a tiny non-zero amount (the exact comparisons ==, !=, equals have rtol = atol = 0)

TINY_KINDS = ["sum-vs-literal", "next-float-below-2", "few-ulps", "tiny-values", "next-float-large"]
TINY_SLOTS = ["dm:weights", "dm:matrix", "result:extra-array", "result:extra-float", "result:extra-nested-array",
              "result:extra-2d-array", "rcmp:extra-array", "rcmp:extra-float"]


def _ulps(x, k):
    """the double `k` representable steps above (k > 0) / below (k < 0) x"""
    for _ in range(abs(k)):
        x = math.nextafter(x, math.inf if k > 0 else -math.inf)
    return x


def _tiny_pair(rng, kind):
    """(a, b): two positive finite doubles, a != b, whose difference is tiny in absolute terms (one or a few units in the last
    place, or two very small values of any ratio) - or one unit in the last place of a larger number"""
    if kind == "sum-vs-literal":  # the results of decimal arithmetic vs the decimal literal
        a, b = rng.choice([(0.1 + 0.2, 0.3), (0.1 * 3, 0.3), (0.7 + 0.1, 0.8), (0.3 - 0.1, 0.2), (1 - 0.9, 0.1), (1.1 + 2.2, 3.3),
                           (0.1 + 0.2 + 0.3, 0.6), (1.0 / 49 * 49, 1.0)])
    elif kind == "next-float-below-2":
        a = rng.choice([0.5, 1.0, 0.25, 1.5, 0.3, 0.1, rng.uniform(0.01, 2.0), rng.randint(1, 15) / 8])
        b = _ulps(a, rng.choice([1, -1]))
    elif kind == "few-ulps":
        a = rng.choice([0.5, 1.0, 0.75, 0.2, rng.uniform(0.01, 1.0), rng.uniform(0.5, 1.0)])
        b = _ulps(a, rng.choice([2, 3, 4, -2, -3]))
    elif kind == "tiny-values":
        a, b = rng.choice([(1e-20, 3e-20), (1e-300, 2e-300), (2.5e-17, 1e-16), (1e-17, 1e-30), (1e-310, 3e-310),
                           (math.ldexp(1.0, -60), math.ldexp(1.0, -61)), (1e-18, 1.5e-18)])
    else:
        a = math.ldexp(rng.uniform(0.5, 1.0), rng.randint(2, 9))
        b = _ulps(a, rng.choice([1, -1]))
    assert a != b and a > 0 and b > 0
    return (a, b) if rng.random() < 0.5 else (b, a)


def _tiny_extra(rng, spec, where, a, b):
    """(left, right): the result `spec` twice, ONE float of extra being `a` on the left and `b` on the right"""
    left = _copy.deepcopy(spec)
    n = len(spec["alternatives"])
    target, path = left["extra"], []
    if where == "extra-nested-array":
        left["extra"]["sub"] = {"t": "dict", "v": gen_extra(rng, n, depth=1)}
        target, path = left["extra"]["sub"]["v"], ["sub"]
    family = rng.choice(["dyadic", "float"])
    if where == "extra-float":
        key = rng.choice(["q", "tv", "k"])
        target[key] = {"t": "float", "v": a}
        pos = None
    elif where == "extra-2d-array":
        key = rng.choice(["matrix_c", "tv"])
        p, q = rng.randint(1, 3), rng.randint(1, 3)
        target[key] = {"t": "farr", "shape": [p, q], "data": [_fval(rng, family) for _ in range(p * q)]}
        pos = rng.randrange(p * q)
    else:
        key = rng.choice(["score", "s", "ideal", "tv"])
        ln = max(n, 1) if rng.random() < 0.7 else rng.randint(1, 4)
        target[key] = {"t": "farr", "shape": [ln], "data": [_fval(rng, family) for _ in range(ln)]}
        pos = rng.randrange(ln)
    if pos is not None:
        target[key]["data"][pos] = a
    right = _copy.deepcopy(left)
    t = right["extra"]
    for p in path:
        t = t[p]["v"]
    if pos is None:
        t[key]["v"] = b
    else:
        t[key]["data"][pos] = b
    return left, right


def _tiny_case(rng, slot, a, b):
    """(left, right, member): a pair of objects identical except for ONE float (a on the left, b on the right) held in `slot`"""
    holder, where = slot.split(":")
    if holder == "dm":
        left = gen_dm(rng, m=rng.choice([1, 2, 3, 4]), n=rng.choice([1, 2, 3, 4]), allow_special=False)
        m, n = len(left["matrix"]), len(left["criteria"])
        j = rng.randrange(n)
        right = None
        if where == "weights":
            left["weights"][j] = a
            right = _copy.deepcopy(left)
            right["weights"][j] = b
        else:
            if left["colkinds"][j] != "float":
                left["colkinds"][j] = "float"
                for row in left["matrix"]:
                    row[j] = _fval(rng, "float")
            i = rng.randrange(m)
            left["matrix"][i][j] = a
            right = _copy.deepcopy(left)
            right["matrix"][i][j] = b
        return left, right, where
    if holder == "result":
        left, right = _tiny_extra(rng, gen_result(rng, n=rng.choice([1, 2, 3, 4, 5])), where, a, b)
        return left, right, "extra_"
    left = gen_rcmp(rng, n=rng.choice([1, 2, 3, 4]))
    i = rng.randrange(len(left["ranks"]))
    li, ri = _tiny_extra(rng, left["ranks"][i][1], where, a, b)
    left["ranks"][i][1] = li
    right = _copy.deepcopy(left)
    right["ranks"][i][1] = ri
    return left, right, "ranks"


# ---- results identical except for the ORDER of their alternatives

PERMS = ["swap", "reverse", "rotate", "shuffle"]


def _reorder(rng, xs, how):
    """the distinct labels `xs` (two or more) in another order"""
    n = len(xs)
    ys = list(xs)
    if how == "swap":
        i, j = rng.sample(range(n), 2)
        if rng.random() < 0.5:
            i = rng.randrange(n - 1)
            j = i + 1
        ys[i], ys[j] = ys[j], ys[i]
    elif how == "reverse":
        ys.reverse()
    elif how == "rotate":
        k = rng.randint(1, n - 1)
        ys = ys[k:] + ys[:k]
    else:
        while ys == list(xs):
            rng.shuffle(ys)
    assert ys != list(xs) and sorted(map(str, ys)) == sorted(map(str, xs))
    return ys


def _whole_number_labels(rng, n):
    p = rng.random()
    if p < 0.4:
        return list(range(n))
    if p < 0.6:
        return list(range(1, n + 1))
    return rng.sample(range(0, 40), n)


# ---- extras with the SAME NUMBER of entries under DIFFERENT KEY NAMES (the entries only one side has hold None)

KEYNAME_KINDS = ["none-vs-value", "none-vs-none", "two-none-vs-two-values", "none-vs-value:only-entry", "none-vs-none:only-entry",
                 "two-none-vs-none+value"]
KEYNAME_PLACES = ["top", "nested", "top", "nested-2"]
KEYNAME_HOLDERS = ["rank", "kernel", "rcmp"]
OPTION_KEYS = ["lambda_", "iterations", "tol", "eps", "p", "r", "seed", "njobs", "max_iter", "w0", "criterion", "alpha"]


def _option_value(rng, n):
    """a value (not None) an entry of extra may hold"""
    family = rng.choice(["dyadic", "float"])
    return rng.choice([{"t": "int", "v": rng.randint(0, 9)}, {"t": "int", "v": 0}, {"t": "float", "v": _fval(rng, family)},
                       {"t": "str", "v": rng.choice(["a", "euclidean", "", "None"])},
                       {"t": "farr", "shape": [max(n, 1)], "data": [_fval(rng, family) for _ in range(max(n, 1))]},
                       {"t": "iarr", "shape": [2], "data": [rng.randint(0, 9), rng.randint(0, 9)]},
                       {"t": "dict", "v": {}}, {"t": "dict", "v": {"a": {"t": "int", "v": 1}}}])


def _keynames_pair(rng, spec, kind, place):
    """(left, right, has_none): the result `spec` twice; one mapping of extra (the top level, or a nested mapping one / two levels
    down) holds on both sides the same shared entries plus the SAME NUMBER of further entries under DIFFERENT NAMES - those of one
    side all hold None (an option left unset), those of the other side hold None or a value.  Which side holds the None-only
    entries, and whether they come before or after the shared ones, is drawn."""
    left = _copy.deepcopy(spec)
    n = len(spec["alternatives"])
    only = kind.endswith(":only-entry")
    if place == "top":
        if only:
            left["extra"] = {}
        path = []
    else:
        inner = {} if only else gen_extra(rng, n, depth=2)
        if not only and not inner:
            inner = {"a": {"t": "int", "v": 1}}
        k1 = rng.choice(["info", "sub", "params"])
        if place == "nested":
            left["extra"][k1] = {"t": "dict", "v": inner}
            path = [k1]
        else:
            left["extra"][k1] = {"t": "dict", "v": {"opts": {"t": "dict", "v": inner}, "k": {"t": "int", "v": 2}}}
            path = [k1, "opts"]
    if place == "top" and not only and not left["extra"]:
        left["extra"]["score"] = {"t": "farr", "shape": [n], "data": [_fval(rng, "dyadic") for _ in range(n)]}
    right = _copy.deepcopy(left)

    def mapping(s):
        t = s["extra"]
        for p in path:
            t = t[p]["v"]
        return t

    base = kind.split(":")[0]
    cnt = 2 if base.startswith("two-") else 1
    names = rng.sample(OPTION_KEYS, 2 * cnt)
    a_names, b_names = names[:cnt], names[cnt:]
    a_new = {k: {"t": "none"} for k in a_names}  # the side whose own entries all hold None
    if base == "none-vs-value":
        b_new = {b_names[0]: _option_value(rng, n)}
    elif base == "none-vs-none":
        b_new = {b_names[0]: {"t": "none"}}
    elif base == "two-none-vs-two-values":
        b_new = {k: _option_value(rng, n) for k in b_names}
    else:  # two-none-vs-none+value
        b_new = {b_names[0]: {"t": "none"}, b_names[1]: _option_value(rng, n)}
    if rng.random() < 0.5:
        a_new, b_new = b_new, a_new

    def put(s, new):
        t = mapping(s)
        if rng.random() < 0.5:  # the new entries first
            old = dict(t)
            t.clear()
            t.update(new)
            t.update(old)
        else:
            t.update(new)

    put(left, a_new)
    put(right, b_new)
    assert len(mapping(left)) == len(mapping(right)) and set(mapping(left)) != set(mapping(right))
    return left, right, True


def _other_method(rng, m):
    """a method name different from `m`: one character appended / dropped, another case, surrounding blank, another name"""
    cands = [m + "2", m + " ", " " + m, m.upper(), m.lower(), m.swapcase(), m[:-1], m[1:], m + m, "", rng.choice(METHODS),
             m.replace("e", "E"), "None"]
    cands = [c for c in cands if c != m]
    return rng.choice(cands)


RANK_EXTRA_CHANGES = ["int", "str", "rename", "rename-none", "type", "one-more-none", "none-vs-zero", "nested-int"]


def _only_extra(rng, spec, how):
    """(left, right, has_none): the rank `spec` twice, differing ONLY in extra by a change compared exactly (never a tolerance)"""
    left = _copy.deepcopy(spec)
    n = len(spec["alternatives"])
    ex = left["extra"]
    if how == "int":
        ex.setdefault("rank_by", {"t": "int", "v": rng.randint(0, 3)})
        if ex["rank_by"]["t"] != "int":
            ex["rank_by"] = {"t": "int", "v": 1}
        right = _copy.deepcopy(left)
        right["extra"]["rank_by"]["v"] += rng.choice([1, -1, 2])
        return left, right, False
    if how == "str":
        ex["name"] = {"t": "str", "v": rng.choice(["a", "b", "euclidean", ""])}
        right = _copy.deepcopy(left)
        right["extra"]["name"]["v"] = _other_method(rng, ex["name"]["v"])
        return left, right, False
    if how in ("rename", "rename-none"):
        k1, k2 = rng.sample(OPTION_KEYS, 2)
        v = {"t": "none"} if how == "rename-none" else _option_value(rng, n)
        ex[k1] = v
        right = _copy.deepcopy(left)
        right["extra"] = {(k2 if k == k1 else k): e for k, e in right["extra"].items()}  # the same entry under another name
        return left, right, how == "rename-none"
    if how == "type":
        v = rng.randint(0, 5)
        ex["k"] = {"t": "int", "v": v}
        right = _copy.deepcopy(left)
        right["extra"]["k"] = {"t": "float", "v": float(v)}
        return left, right, False
    if how == "one-more-none":
        right = _copy.deepcopy(left)
        right["extra"][rng.choice(OPTION_KEYS)] = {"t": "none"}
        return left, right, True
    if how == "none-vs-zero":
        k = rng.choice(OPTION_KEYS)
        ex[k] = {"t": "none"}
        right = _copy.deepcopy(left)
        right["extra"][k] = rng.choice([{"t": "int", "v": 0}, {"t": "float", "v": 0.0}, {"t": "str", "v": ""}, {"t": "str", "v": "None"},
                                        {"t": "dict", "v": {}}, {"t": "farr", "shape": [0], "data": []}])
        return left, right, True
    if how == "nested-int":
        ex["info"] = {"t": "dict", "v": {"a": {"t": "int", "v": rng.randint(0, 5)}, "b": {"t": "str", "v": "x"}}}
        right = _copy.deepcopy(left)
        right["extra"]["info"]["v"]["a"]["v"] += 1
        return left, right, False
    raise KeyError(how)


def _mk(relation, left, right, tols, **kw):
    c = {"relation": relation, "left": left, "right": right, "tols": tols}
    c.update(kw)
    return c


def gen(ctx):
    rng = ctx.rng
    cases = []
    kinds = ["dm", "result", "rcmp"]

    # 1. identical object / copy / identically constructed
    for _ in range(ctx.n(45, 700)):
        kind = rng.choice(kinds)
        left = gen_obj(rng, kind)
        rel = rng.choice(["identical", "copy", "copy", "same_ctor", "same_ctor"])
        if rel == "identical":
            right = {"o": "left"}
        elif rel == "copy":
            how = rng.choice({"dm": ["deepcopy", "copy", "dm.copy"], "result": ["deepcopy", "copy"],
                              "rcmp": ["deepcopy", "copy", "rebuild"]}[kind])
            right = {"o": "copy", "how": how}
        else:
            right = _copy.deepcopy(left)
        cases.append(_mk(rel, left, right, _tols(ctx, rng)))

    # 2. exactly one member changed
    for it in range(ctx.n(150, 2600)):
        kind = kinds[it % 3]  # every member of every kind in turn
        if kind == "dm":
            member = DM_MEMBERS[(it // 3) % len(DM_MEMBERS)]
            left = gen_dm(rng, m=rng.choice([1, 2, 3, 4]), n=rng.choice([1, 2, 3, 4]))
            r = _change_dm(rng, left, member)
            if r is None:
                continue
            right, ch = r
            cases.append(_mk("one_member", left, right, _tols(ctx, rng, ch.get("design_tol"), True if member == "dtypes" and rng.random() < 0.7 else None),
                             member=member, change=ch))
        elif kind == "result":
            member = (RES_MEMBERS + ["extra_", "extra_"])[(it // 3) % 6]
            left = gen_result(rng, n=rng.choice([1, 2, 3, 4, 5]))
            r = _change_result(rng, left, member)
            if r is None:
                continue
            left, right, ch = r
            cases.append(_mk("one_member", left, right, _tols(ctx, rng, ch.get("design_tol")), member=member, change=ch))
        else:
            left = gen_rcmp(rng, n=rng.choice([1, 2, 3, 4]))
            right = _copy.deepcopy(left)
            how = rng.choice(["inner", "inner", "name", "drop", "swap"])
            ch = {}
            if how == "inner":
                i = rng.randrange(len(left["ranks"]))
                member = rng.choice(["method", "values", "extra_", "extra_"])
                r = _change_result(rng, left["ranks"][i][1], member)
                if r is None:
                    continue
                li, ri, ch = r
                left = _copy.deepcopy(left)
                left["ranks"][i][1] = li
                right = _copy.deepcopy(left)
                right["ranks"][i][1] = ri
            elif how == "name":
                right["ranks"][rng.randrange(len(right["ranks"]))][0] = "other_name"
            elif how == "drop":
                if len(right["ranks"]) <= 2:
                    right["ranks"].append(["added", _copy.deepcopy(right["ranks"][0][1])])
                else:
                    right["ranks"].pop()
            else:
                right["ranks"][0], right["ranks"][1] = right["ranks"][1], right["ranks"][0]
                if right["ranks"] == left["ranks"]:
                    continue
            cases.append(_mk("one_member", left, right, _tols(ctx, rng, ch.get("design_tol")), member="ranks", change=ch))

    # 2b. decision matrices that differ ONLY in the width of one criterion's dtype (member `dtypes`), asked from both sides
    for _ in range(ctx.n(30, 500)):
        base = gen_dm(rng, m=rng.choice([1, 2, 3, 4]), n=rng.choice([1, 2, 3, 4]), allow_special=False)
        if base["criteria"] and rng.random() < 0.6:  # at least one integer criterion
            c = rng.randrange(len(base["criteria"]))
            lo = rng.choice([-5, 0])
            base["colkinds"][c] = "int"
            for row in base["matrix"]:
                row[c] = rng.randint(lo, 40)
        r = _width_pair(rng, base)
        if r is None:
            continue
        left, right, note = r
        cases.append(_mk("one_member", left, right, _tols(ctx, rng, None, True if rng.random() < 0.7 else None),
                         member="dtypes", change={}, both_ways=True, width=note))

    # 2c. results / comparators identical except for the concrete TYPE of one value of extra (same value; one side's type a
    #     subclass of the other's), asked from both sides; the model's extras have no such types: property oracle only
    for _ in range(ctx.n(45, 700)):
        if rng.random() < 0.65:
            r = _subtype_pair(rng, gen_result(rng, n=rng.choice([1, 2, 3, 4, 5])))
            left, right, note = r
            member = "extra_"
        else:
            left = gen_rcmp(rng, n=rng.choice([1, 2, 3, 4]))
            i = rng.randrange(len(left["ranks"]))
            li, ri, note = _subtype_pair(rng, left["ranks"][i][1])
            left["ranks"][i][1] = li
            right = _copy.deepcopy(left)
            right["ranks"][i][1] = ri
            member = "ranks"
        cases.append(_mk("subtype", left, right, _tols(ctx, rng), member=member, oracle_only=True, both_ways=True, sub=note))

    # 1b. HISTORIES on one decision matrix: other matrices are derived from it first (dm.copy(<member>=...) for every member in
    #     turn, several members at once, several times; entries of the returned to_dict() replaced), THEN the matrix is compared
    #     with itself, a plain copy, an identically constructed twin, or a matrix derived from it with exactly one member replaced
    for it in range(ctx.n(66, 900)):
        left = gen_dm(rng, m=rng.choice([1, 2, 3, 4]), n=rng.choice([1, 2, 3, 4]), allow_special=False)
        if rng.random() < 0.5 and "int" not in left["colkinds"]:
            c = rng.randrange(len(left["criteria"]))
            left["colkinds"][c] = "int"
            for row in left["matrix"]:
                row[c] = rng.randint(-5, 40)
        hist = _history(rng, left, DM_MEMBERS[it % len(DM_MEMBERS)])
        if not hist:
            continue
        p = rng.random()
        if p < 0.55:
            cases.append(_mk("copy", left, {"o": "copy", "how": "dm.copy"}, _tols(ctx, rng), history=hist))
        elif p < 0.65:
            cases.append(_mk("copy", left, {"o": "copy", "how": rng.choice(["deepcopy", "copy"])}, _tols(ctx, rng), history=hist))
        elif p < 0.77:
            cases.append(_mk("same_ctor", left, _copy.deepcopy(left), _tols(ctx, rng), history=hist))
        elif p < 0.82:
            cases.append(_mk("identical", left, {"o": "left"}, _tols(ctx, rng), history=hist))
        else:
            member = rng.choice(DM_MEMBERS)
            r = _copy_step(rng, left, member, exact=True)
            if r is None:
                continue
            kw, ch = r
            cases.append(_mk("one_member", left, {"o": "copy", "how": "dm.copy", "kw": kw},
                             _tols(ctx, rng, ch.get("design_tol"), True if member == "dtypes" and rng.random() < 0.7 else None),
                             member=member, change=ch, history=hist if rng.random() < 0.8 else []))

    # 2d. results / comparators identical except for ONE exact-valued (int / bool / object) ndarray of extra that has a different
    #     shape on each side (broadcast-compatible or not): unequal from both sides, diff names that member, nothing raises
    for _ in range(ctx.n(60, 900)):
        if rng.random() < 0.65:
            left, right, note = _xshape_pair(rng, gen_result(rng, n=rng.choice([1, 2, 3, 4, 5])))
            member = "extra_"
        else:
            left = gen_rcmp(rng, n=rng.choice([1, 2, 3, 4]))
            i = rng.randrange(len(left["ranks"]))
            li, ri, note = _xshape_pair(rng, left["ranks"][i][1])
            left["ranks"][i][1] = li
            right = _copy.deepcopy(left)
            right["ranks"][i][1] = ri
            member = "ranks"
        cases.append(_mk("one_member", left, right, _tols(ctx, rng), member=member, change={}, both_ways=True, xshape=note))

    # 3. different shapes / lengths, including 1 and 0
    for _ in range(ctx.n(60, 1200)):
        kind = rng.choice(kinds)
        if kind == "dm":
            m, n = rng.choice([1, 2, 3, 4]), rng.choice([1, 2, 3])
            left = gen_dm(rng, m=m, n=n, allow_special=rng.random() < 0.5)
            which = rng.choice(["rows", "rows", "cols", "both"])
            m2 = rng.choice([x for x in (0, 1, m - 1, m + 1) if x != m and x >= 0]) if which != "cols" else m
            n2 = rng.choice([x for x in (0, 1, n - 1, n + 1) if x != n and x >= 0]) if which != "rows" else n
            if rng.random() < 0.6:
                # a prefix / extension of the same data: row i of the smaller one equals row i of the larger one
                right = gen_dm(rng, m=m2, n=n2, allow_special=False)
                for i in range(min(m, m2)):
                    for j in range(min(n, n2)):
                        right["matrix"][i][j] = left["matrix"][i][j]
                for j in range(min(n, n2)):
                    right["weights"][j] = left["weights"][j]
                    right["objectives"][j] = left["objectives"][j]
            else:
                right = gen_dm(rng, m=m2, n=n2)
            if rng.random() < 0.5:
                left, right = right, left
            cases.append(_mk("shape", left, right, _tols(ctx, rng), must_name=["shape"], shape_note="dm %dx%d vs %dx%d" % (
                len(left["matrix"]), len(left["criteria"]), len(right["matrix"]), len(right["criteria"]))))
        elif kind == "result":
            n = rng.choice([1, 2, 3, 4, 5])
            n2 = rng.choice([x for x in (0, 1, 1, n - 1, n + 1) if x != n and x >= 0])
            typ = rng.choice(["rank", "rank", "kernel"])
            left = gen_result(rng, n=n, typ=typ)
            right = gen_result(rng, n=n2, typ=typ, alts=left["alternatives"][:n2] + [f"N{i}" for i in range(max(0, n2 - n))])
            right["method"] = left["method"]
            if typ == "rank" and n2 == 1 and rng.random() < 0.7:
                # broadcasting hazard: every left rank equals the single right rank
                left["values"] = [float(1)] * n if left["vdtype"] == "float" else [1] * n
            if rng.random() < 0.7:
                # extras: same keys, arrays of the respective length (length 1 would broadcast)
                left["extra"] = {"score": {"t": "farr", "shape": [n], "data": [2.5] * n}}
                right["extra"] = {"score": {"t": "farr", "shape": [n2], "data": [2.5] * n2}}
            if rng.random() < 0.5:
                left, right = right, left
            cases.append(_mk("shape", left, right, _tols(ctx, rng), must_name=["alternatives", "values"],
                             shape_note="result %d vs %d" % (len(left["alternatives"]), len(right["alternatives"]))))
        else:
            n = rng.choice([1, 2, 3, 4])
            n2 = rng.choice([x for x in (0, 1, n - 1, n + 1) if x != n and x >= 0])
            left = gen_rcmp(rng, n=n, k=2)
            right = gen_rcmp(rng, n=n2, k=2)
            for i in range(2):
                right["ranks"][i][0] = left["ranks"][i][0]
                right["ranks"][i][1]["method"] = left["ranks"][i][1]["method"]
            if rng.random() < 0.5:
                left, right = right, left
            cases.append(_mk("shape", left, right, _tols(ctx, rng), must_name=["ranks"],
                             shape_note="rcmp of %d vs %d alternatives" % (len(left["ranks"][0][1]["alternatives"]),
                                                                            len(right["ranks"][0][1]["alternatives"]))))

    # 4. unrelated types
    for _ in range(ctx.n(40, 500)):
        kind = rng.choice(kinds)
        left = gen_obj(rng, kind)
        p = rng.random()
        if p < 0.5:
            right = {"o": "other", "v": rng.choice(OTHERS)}
        elif kind == "result" and p < 0.7:
            right = _copy.deepcopy(left)
            right["type"] = "kernel" if left["type"] == "rank" else "rank"
            n = len(left["alternatives"])
            if right["type"] == "kernel":
                right["values"], right["vdtype"] = [True] * n, "bool"
            else:
                right["values"], right["vdtype"] = [1] * n, "int"
        else:
            right = gen_obj(rng, rng.choice([k for k in kinds if k != kind]))
        cases.append(_mk("types", left, right, _tols(ctx, rng)))

    # 4b. (a fixed share of every run) a matrix / rank result / kernel result / comparator compared with an UNRELATED object of
    #     an awkward shape - every kind of object with every kind of left operand in turn: ragged nested sequences (random row
    #     lengths, every wrapping, rows shaped like the left operand's with one row longer / shorter), and the table of
    #     _awkward_table().  Never an exception, always unequal, diff says `different_types`.
    holders = ["dm", "rank", "kernel", "rcmp"]

    def holder_obj(h):
        if h == "dm":
            return gen_dm(rng)
        if h == "rcmp":
            return gen_rcmp(rng)
        return gen_result(rng, typ=h)

    def dims(h, spec):
        if h == "dm":
            return len(spec["matrix"]), len(spec["criteria"])
        if h == "rcmp":
            return len(spec["ranks"]), len(spec["ranks"][0][1]["alternatives"])
        return 2, len(spec["alternatives"])

    def awk(h, left, right, note):
        cases.append(_mk("types", left, dict({"o": "other", "v": "awkward"}, **right), _tols(ctx, rng), awkward=note, holder=h))

    for rep in range(ctx.n(1, 6)):
        for wi, wrap in enumerate(RAGGED_WRAPS):
            for hi, h in enumerate(holders):
                left = holder_obj(h)
                m, n = dims(h, left)
                style = (wi + hi + rep) % 3
                if style == 0 and m >= 2:  # the left operand's own shape, one row one cell longer / shorter
                    rows = [n] * m
                    rows[rng.randrange(m)] = n + 1 if (n == 0 or rng.random() < 0.5) else n - 1
                elif style == 1:  # the shapes of the examples: [[1, 2, 3], [4, 5]], [[1], [2, 3]]
                    rows = rng.choice([[3, 2], [2, 3], [1, 2], [2, 1], [2, 0], [0, 1]])
                else:
                    rows = [rng.randint(0, 4) for _ in range(rng.randint(2, 4))]
                    if len(set(rows)) == 1:
                        rows[-1] += 1
                cell = rng.choice(["int", "int", "float", "float", "str", "bool"])
                if wrap in ("set-of-tuples", "list-of-sets") and cell == "bool":
                    cell = "int"
                awk(h, left, {"what": "ragged", "wrap": wrap, "rows": rows, "cell": cell}, "ragged:" + wrap)
        for name in _awkward_names():
            for h in holders:
                awk(h, holder_obj(h), {"what": name}, name)

    # 5. unrelated random pairs of the same kind; pairs with NaN (correspondence, consistency)
    for _ in range(ctx.n(40, 800)):
        kind = rng.choice(kinds)
        nan = rng.random() < 0.5
        left = gen_obj(rng, kind, nan=nan)
        if nan:
            right = rng.choice([{"o": "copy", "how": "deepcopy"}, _copy.deepcopy(left), {"o": "left"}])
            rel = "identical" if right.get("o") == "left" else ("copy" if right.get("o") == "copy" else "same_ctor")
            cases.append(_mk(rel, left, right, _tols(ctx, rng), finite=False))
        else:
            cases.append(_mk("random", left, gen_obj(rng, kind), _tols(ctx, rng)))

    # 6. (a fixed share of every run) ONE float member changed by a tiny non-zero absolute amount - neighbouring doubles, a few
    #    units in the last place, the result of decimal arithmetic vs the literal, two very small values: the exact comparisons
    #    (==, !=, equals: rtol = atol = 0) say unequal, like aequals / diff without tolerance, which names that member; from both
    #    sides.  Every kind of change in every float-holding slot in turn.
    for it in range(ctx.n(40, 640)):
        kind = TINY_KINDS[it % len(TINY_KINDS)]
        slot = TINY_SLOTS[it % len(TINY_SLOTS)]  # 5 and 8 are coprime: all 40 combinations in 40 iterations
        a, b = _tiny_pair(rng, kind)
        left, right, member = _tiny_case(rng, slot, a, b)
        cases.append(_mk("one_member", left, right, _tols(ctx, rng, (0.0, 0.0)), member=member, both_ways=True,
                         change={"numeric": [[a, b]], "design_tol": [0.0, 0.0], "design": "tiny:" + kind}, tiny=slot))

    # 7. (a fixed share of every run) two rank / kernel results - also inside comparators - identical in method, values and extra
    #    whose alternatives are the SAME labels in another order (two swapped, reversed, rotated, shuffled; strings and whole
    #    numbers): exactly the member `alternatives` differs, at every tolerance, from both sides
    for it in range(ctx.n(36, 600)):
        how = PERMS[it % len(PERMS)]
        holder = ["rank", "kernel", "rcmp"][it % 3]
        labels = "int" if (it + it // 12) % 2 == 0 else "str"  # every (order, holder, labels) combination within 24 iterations
        if holder == "rcmp":
            n = rng.choice([2, 3, 4])
            left = gen_rcmp(rng, n=n)
            if labels == "int":
                old = left["ranks"][0][1]["alternatives"]
                new = dict(zip(old, _whole_number_labels(rng, n)))
                for _, r in left["ranks"]:
                    r["alternatives"] = [new[x] for x in r["alternatives"]]
            right = _copy.deepcopy(left)
            i = rng.randrange(len(left["ranks"]))
            which = range(len(left["ranks"])) if rng.random() < 0.25 else [i]  # one ranking, or every ranking
            for i in which:
                right["ranks"][i][1]["alternatives"] = _reorder(rng, left["ranks"][i][1]["alternatives"], how)
            member = "ranks"
        else:
            n = rng.choice([2, 3, 3, 4, 5])
            alts = _whole_number_labels(rng, n) if labels == "int" else rng.sample(ALT_POOL, n)
            left = gen_result(rng, n=n, typ=holder, alts=alts)
            right = _copy.deepcopy(left)
            right["alternatives"] = _reorder(rng, alts, how)
            member = "alternatives"
        cases.append(_mk("one_member", left, right, _tols(ctx, rng), member=member, change={}, both_ways=True,
                         altperm="%s:%s:%s" % (holder, labels, how)))

    # 8. (a fixed share of every run) rank / kernel results - also inside comparators - identical in method, alternatives and
    #    values whose extra (top level, or a mapping nested one / two levels down) have the SAME NUMBER of entries under DIFFERENT
    #    KEY NAMES, the entries only one side has holding None ({'score': a, 'lambda_': None} | {'score': a, 'iterations': 7},
    #    {'p': None} | {'q': None}, ...): exactly `extra_` (`ranks`) differs - unequal from BOTH sides at every tolerance, diff
    #    names that member.  None is outside the model's extras: property oracle only.  Every (kind, holder) in turn.
    for it in range(ctx.n(48, 720)):
        holder = KEYNAME_HOLDERS[it % 3]
        kind = KEYNAME_KINDS[(it // 3) % len(KEYNAME_KINDS)]
        place = KEYNAME_PLACES[(it + it // 18) % len(KEYNAME_PLACES)]
        if holder == "rcmp":
            left = gen_rcmp(rng, n=rng.choice([1, 2, 3, 4]))
            i = rng.randrange(len(left["ranks"]))
            li, ri, _ = _keynames_pair(rng, left["ranks"][i][1], kind, place)
            left["ranks"][i][1] = li
            right = _copy.deepcopy(left)
            right["ranks"][i][1] = ri
            member = "ranks"
        else:
            left, right, _ = _keynames_pair(rng, gen_result(rng, n=rng.choice([1, 2, 3, 4, 5]), typ=holder), kind, place)
            member = "extra_"
        cases.append(_mk("one_member", left, right, _tols(ctx, rng), member=member, change={}, both_ways=True, oracle_only=True,
                         keynames="%s:%s:%s" % (holder, kind, place)))

    # 9. (a fixed share of every run) comparators whose contained ranks differ ONLY in method (one character, case, a blank, '')
    #    or ONLY in extra (an int / str / nested int, the type of a value, an entry renamed, None | 0 / '' / {} / [], one more entry
    #    holding None) - in the first, the last, a middle or every ranking: exactly `ranks` differs, from both sides
    for it in range(ctx.n(36, 400)):
        k = rng.choice([2, 3, 4])
        left = gen_rcmp(rng, n=rng.choice([1, 2, 3, 4]), k=k)
        where = ["first", "last", "middle", "every"][(it // 9) % 4] if k > 2 else ["first", "last", "every"][(it // 9) % 3]
        idx = {"first": [0], "last": [k - 1], "middle": [k // 2], "every": list(range(k))}[where]
        how = (["method"] + RANK_EXTRA_CHANGES)[it % 9]
        right = _copy.deepcopy(left)
        has_none = False
        for i in idx:
            if how == "method":
                right["ranks"][i][1]["method"] = _other_method(rng, left["ranks"][i][1]["method"])
            else:
                li, ri, hn = _only_extra(rng, left["ranks"][i][1], how)
                left["ranks"][i][1], right["ranks"][i][1] = li, ri
                has_none = has_none or hn
        extra_kw = {"oracle_only": True} if has_none else {}
        cases.append(_mk("one_member", left, right, _tols(ctx, rng), member="ranks", change={}, both_ways=True,
                         rankonly="%s:%s" % (how if how == "method" else "extra:" + how, where), **extra_kw))
    return cases
