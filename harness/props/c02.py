"""C02 — decision matrices and results are values: no aliasing, inputs never mutated.

Histories over REAL objects: read any public accessor | write into what an earlier read returned through
every mutation channel that exists for its type | write into the arrays that were given to the constructor |
run a transformer / decision maker / pipeline / RanksComparator / RankInvariantChecker / selection on the
matrix.  PROPERTY oracle (independent of the model): the bit-for-bit snapshot of everything the matrix and
the result report, taken before the history, is compared after EVERY step; the failing history is shrunk.
CORRESPONDENCE: the Lean model (`Skc.Heap`, op `heap`), fed with the hand-out kinds of the generated table
(`Skc/Generated/Accessors.lean`, classified on live objects by `extract.accessors_c02`) and the same history,
predicts at which step an answer changes (never, when no accessor is `memoShared`) and which plain
`obj[i] = v` writes are refused (`_ACArray`)."""
from __future__ import annotations

import itertools
import warnings

import numpy as np

import c02lib as L
import common as C
import extract as E
import gen as G
import methods as M

PID = "C02"
RULE = (
    "cases: (decision matrix 2-8 alternatives x 1-5 criteria built from arrays of exactly the stored dtypes — float64 "
    "weights, object/int objectives, DataFrame with its own Index objects / mkdm with label arrays; string or integer "
    "labels; optional result of WSM/WPM/TOPSIS/MOORA/ELECTRE1/ELECTRE2; history of 1-25 steps drawn from: read one of "
    "the public accessor instances (DecisionMatrix parts, alternatives[a], criteria[c], to_dict() entries, "
    "to_dataframe, describe, dominance bt/eq/dominance/compare/dominated/dominators_of/has_loops incl. strict, stats() "
    "and the 15 stats methods, result values/alternatives/to_series/rank_/untied_rank_/kernel_*), write into an earlier "
    "read through a channel chosen among all that exist for its type (ndarray: setitem, flat, np.ndarray.__setitem__, "
    "setflags+setitem, view, base, fill, put; Series/DataFrame: iloc, loc, iat, values, values+setflags, to_numpy, array, "
    "asarray, column/row/transposed views, in-place sort, Index storage through values/array/to_numpy/asarray), write "
    "into a constructor argument, call a transformer (22 settings) / decision maker / pipeline / RanksComparator "
    "statistics / RankInvariantChecker(repeat=1) / selection+copy+diff). Thorough adds ALL histories of length <= 4 over "
    "a 9-symbol alphabet (4 reads, 3 writes, argument write, transform) on a fixed 3x2 matrix. Non-trivial: at least one write or call was carried out; distinct by "
    "case hash. Oracle: snapshot before == snapshot after every step (tobytes / exact labels; axis names excluded): between "
    "steps the six to_dict() parts + result parts + a re-read of every accessor read so far, after the last step every "
    "accessor instance (a difference seen only there triggers a re-run comparing everything after every step). INPUTS NEVER "
    "MUTATED: every constructor argument (the caller's DataFrame — made with named Index objects, `df.index.name = ...`, "
    "rename_axis, read_csv(index_col=0) or pivot; axes named or not — its base array and Index objects, objectives / weights "
    "/ alternatives / criteria as arrays or plain lists) is snapshotted right before construction (values bit for bit, "
    "dtypes, labels AND axis names) and compared right after construction, after the evaluate() that made the result and "
    "after every step of the history that is not the caller's own write into that argument."
)
ASSUMPTIONS = [
    "labelled axes (as mkdm / from_mcda_data always produce): a pandas RangeIndex shares one materialised cache between all "
    "its copies inside pandas, so matrices built by a bare DecisionMatrix(ndarray, ...) are outside the domain (their "
    "dominance accessors raise TypeError anyway)",
    "axis names (index.name / columns.name) of what the MATRIX reports and result extras (e_) are outside the property's "
    "snapshot and alphabet (the caller's own frame / Index objects are compared including their axis names)",
    "dominance chains are at most 8 long (matrices have <= 8 alternatives): dominators_of returns < 2**8 entries",
    "repr(dm) / _repr_html_() are not called (they raise under the installed pandas)",
    "RankInvariantChecker is run only on matrices without ties inside a criterion (a tie makes the pre-fix checker loop forever)",
]
PARTIAL = ("object identity inside pandas (copy-on-write blocks, Index views) is validated by the histories and by the dynamic "
           "classification of every accessor x channel, not proved; the model's arrays are abstract (List Int)")
EXHAUSTIVE = True
TRUSTED = ["harness/c02lib.py: the list of mutation channels per type and the canonical snapshot"]

_TABLE = None
_CTOR = None
_EXTRACTED = False


quiet = L.quiet


def extract(ctx):
    """regenerate lean/Skc/Generated/Accessors.lean from the tree under test (before the Lean build)"""
    global _TABLE, _EXTRACTED
    with quiet():  # load the library once, before the worker pool is forked
        import skcriteria.agg.electre, skcriteria.agg.moora, skcriteria.agg.similarity, skcriteria.agg.simple  # noqa: F401,E401
        import skcriteria.cmp, skcriteria.pipeline  # noqa: F401,E401
        import skcriteria.preprocessing.filters, skcriteria.preprocessing.impute, skcriteria.preprocessing.increment  # noqa: F401,E401
        import skcriteria.preprocessing.invert_objectives, skcriteria.preprocessing.push_negatives  # noqa: F401,E401
        import skcriteria.preprocessing.scalers, skcriteria.preprocessing.weighters  # noqa: F401,E401
    changed = E.accessors_c02()
    _TABLE, _EXTRACTED = None, True
    C.log(f"C02 extract: Accessors.lean {'rewritten' if changed else 'unchanged'}; "
          f"memoShared: {[n for n, k, _ in table() if k == 'memoShared'] or 'none'}; "
          f"constructor arguments kept: {ctor_shared() or 'none'}")


def ctor_shared():
    table()
    return _CTOR


def table():
    """the generated table of the tree under test; in a process that has not run `extract` (replay) it is regenerated
    first, so the model is never fed with the kinds of another tree"""
    global _TABLE, _CTOR
    if _TABLE is None:
        if not _EXTRACTED:
            E.accessors_c02()
        _TABLE, _CTOR = E.read_accessors_c02()
    return _TABLE


# ----------------------------------------------------------------------------- subjects

TRANSFORMERS = {
    "StandarScaler-m": ("scalers", "StandarScaler", {"target": "matrix"}),
    "StandarScaler-b": ("scalers", "StandarScaler", {"target": "both"}),
    "MinMaxScaler-m": ("scalers", "MinMaxScaler", {"target": "matrix"}),
    "MinMaxScaler-w": ("scalers", "MinMaxScaler", {"target": "weights"}),
    "MaxAbsScaler-b": ("scalers", "MaxAbsScaler", {"target": "both"}),
    "VectorScaler-m": ("scalers", "VectorScaler", {"target": "matrix"}),
    "VectorScaler-w": ("scalers", "VectorScaler", {"target": "weights"}),
    "SumScaler-b": ("scalers", "SumScaler", {"target": "both"}),
    "CenitDistance": ("scalers", "CenitDistanceMatrixScaler", {}),
    "NegateMinimize": ("invert_objectives", "NegateMinimize", {}),
    "InvertMinimize": ("invert_objectives", "InvertMinimize", {}),
    "PushNegatives-m": ("push_negatives", "PushNegatives", {"target": "matrix"}),
    "PushNegatives-w": ("push_negatives", "PushNegatives", {"target": "weights"}),
    "AddValueToZero-b": ("increment", "AddValueToZero", {"target": "both", "value": 0.5}),
    "EqualWeighter": ("weighters", "EqualWeighter", {}),
    "StdWeighter": ("weighters", "StdWeighter", {}),
    "EntropyWeighter": ("weighters", "EntropyWeighter", {}),
    "CRITIC": ("weighters", "CRITIC", {}),
    "FilterNonDominated": ("filters", "FilterNonDominated", {}),
    "FilterGT0": ("filters", "FilterGT", "crit0"),
    "FilterLE0": ("filters", "FilterLE", "crit0"),
    "SimpleImputer": ("impute", "SimpleImputer", {}),
}
AGG = ["WSM", "WPM", "TOPSIS", "RatioMOORA", "RefPointMOORA", "FMF", "MultiMOORA", "ELECTRE1", "ELECTRE2"]


def _mk_transformer(name, s):
    import importlib

    mod, cls, kw = TRANSFORMERS[name]
    if kw == "crit0":
        kw = {"criteria_filters": {s.crits[0]: 2.0}}
    return getattr(importlib.import_module("skcriteria.preprocessing." + mod), cls)(**kw)


build = L.build_subject


def instances(s):
    return s.instances(max_alt=5, max_pairs=2)


# Between steps the comparison covers the CORE of what the matrix / result reports (the six parts of to_dict(), the
# result's values / alternatives / series) plus every accessor instance the history has read so far (a re-read of
# it); after the last step it covers EVERY accessor instance.  If only the final comparison differs, the history is
# re-run comparing everything after every step, so the first offending step is always named.
_CORE = {n for n, _ in L.CORE}


def run_call(s, what):
    """run one method on the matrix (everything it returns is thrown away)"""
    from skcriteria.cmp import RankInvariantChecker, RanksComparator
    from skcriteria.pipeline import mkpipe

    kind = what["kind"]
    dm = s.dm
    if kind == "transformer":
        return _mk_transformer(what["name"], s).transform(dm)
    if kind == "agg":
        return M.build(what["spec"]).evaluate(dm)
    if kind == "pipeline":
        steps = [_mk_transformer(n, s) for n in what["steps"]] + [M.build(what["spec"])]
        pipe = mkpipe(*steps)
        out = pipe.evaluate(dm)
        pipe.transform(dm)
        return out
    if kind == "rcmp":
        ranks = []
        if s.res is not None and s.rkind == "rank":
            ranks.append(("given", s.res))
        for i, spec in enumerate(what["specs"]):
            ranks.append((f"r{i}", M.build(spec).evaluate(dm)))
        rc = RanksComparator(ranks)
        return [rc.to_dataframe(), rc.to_dataframe(untied=True), rc.corr(), rc.cov(untied=True), rc.r2_score(), rc.distance(),
                rc == rc, rc.diff(RanksComparator(ranks[::-1]))]
    if kind == "ric":
        return RankInvariantChecker(M.build(what["spec"]), repeat=1, random_state=what["seed"]).evaluate(dm)
    if kind == "slice":
        out = [dm.copy(), dm[s.crits[: max(1, len(s.crits) // 2)]], dm.loc[s.alts[::-1]], dm.iloc[0:1], dm[s.crits[0]]]
        other = dm.copy(weights=np.asarray(dm.weights) + 1.0)
        out += [dm.diff(other), dm == other, dm.equals(dm.copy()), dm.aequals(other), len(dm), dm.shape]
        return out
    raise KeyError(kind)


def _from_harness(e):
    """was the exception raised by harness code itself (a bug here), not inside the library / numpy / pandas?"""
    import os
    import traceback

    tb = traceback.extract_tb(e.__traceback__)
    here = os.path.dirname(os.path.dirname(os.path.abspath(__file__)))
    return bool(tb) and os.path.abspath(tb[-1].filename).startswith(here)


def _resolve(obj, op):
    """the channel a write step uses on this object: named explicitly, or the `pick`-th of those that exist"""
    chans = sorted(L.channels(obj))
    if not chans:
        return None
    if op.get("channel"):
        return op["channel"]
    return chans[op.get("pick", 0) % len(chans)]


def run_history(case, ops=None, detail=False, full=False):
    """execute a history on fresh live objects; snapshot after every step; stop at the first step that
    changes what the matrix / result reports"""
    ops = case["ops"] if ops is None else ops
    s = build(case)
    insts = instances(s)
    for op in ops:  # instances named by the history itself (corpus files) are watched too
        if op["op"] == "read":
            inst = (op["acc"][0], tuple(op["acc"][1]))
            if inst not in insts and inst[0] in L.ACC:
                insts.append(inst)
    base = s.snapshot(insts)
    base_canon = [s.report(i) for i in insts] if detail else None
    got, steps, first_bad, touched = {}, [], None, set()
    # "inputs never mutated": the caller's own objects are compared after every step the LIBRARY carries out (reads,
    # calls) and every write into an object the matrix handed out; the caller's own writes into them (`mutarg`) move
    # the baseline.  What the constructor itself did to them is in `s.ctor_changed`.
    arg_base = s.arg_snapshot()
    arg_canon = s.arg_canon() if detail else None
    with quiet():
        for t, op in enumerate(ops):
            rec = {"op": op["op"]}
            kind = op["op"]
            if kind == "read":
                inst = (op["acc"][0], tuple(op["acc"][1]))
                rec["acc"] = insts.index(inst) if inst in insts else None
                try:
                    obj = s.read(inst)
                    got[op["id"]] = (obj, rec["acc"])
                    rec["type"] = type(obj).__name__
                except RecursionError:
                    rec["raised"] = "RecursionError"
                except Exception as e:
                    rec["raised"] = type(e).__name__
            elif kind in ("write", "mutarg"):
                if kind == "write":
                    obj, from_acc = got.get(op["src"], (None, None))
                    rec["src_acc"] = from_acc
                else:
                    names = sorted(s.args)
                    which = op["which"] if op["which"] in s.args else names[op.get("pick", 0) % len(names)]
                    obj = s.args[which]
                    rec["which"] = which
                    rec["argno"] = names.index(which)
                ch = _resolve(obj, op) if obj is not None else None
                rec["channel"] = ch
                rec["target"] = type(obj).__name__
                rec["refused"] = "skip" if ch is None else L.attempt(obj, ch, op.get("pos", 0))
            elif kind == "call":
                try:
                    run_call(s, op["what"])
                except RecursionError:
                    rec["err"] = "RecursionError"
                except Exception as e:
                    if _from_harness(e):
                        raise
                    rec["err"] = type(e).__name__
            everything = full or t == len(ops) - 1
            if rec.get("acc") is not None:
                touched.add(rec["acc"])
            widx = [i for i, inst in enumerate(insts) if everything or inst[0] in _CORE or i in touched]
            snap = s.snapshot([insts[i] for i in widx])
            ch_idx = [i for i, y in zip(widx, snap) if base[i] != y]
            if ch_idx and not full and t == len(ops) - 1 and not any(insts[i][0] in _CORE or i in touched for i in ch_idx):
                return run_history(case, ops, detail, full=True)
            rec["changed"] = ch_idx
            arg_now = s.arg_snapshot()
            if kind == "mutarg":
                arg_base = arg_now
                if detail:
                    arg_canon = s.arg_canon()
            else:
                rec["args_changed"] = [k for k in sorted(arg_base) if arg_base[k] != arg_now[k]]
            steps.append(rec)
            if ch_idx or rec.get("args_changed"):
                first_bad = t
                if detail and ch_idx:
                    i = ch_idx[0]
                    rec["before"] = base_canon[i]
                    rec["after"] = s.report(insts[i])
                elif detail:
                    k = rec["args_changed"][0]
                    rec["before"] = arg_canon[k]
                    rec["after"] = s.arg_canon()[k]
                break
    return {"steps": steps, "first_bad": first_bad, "insts": [[n, list(a)] for n, a in insts], "nargs": len(s.args),
            "argnames": sorted(s.args), "ctor": case["dm"]["ctor"], "has_res": s.res is not None,
            "ctor_changed": s.ctor_changed}


def _drop(ops, j):
    """the history without step j (and without the writes into what it returned)"""
    gone = ops[j].get("id") if ops[j]["op"] == "read" else None
    return [o for i, o in enumerate(ops) if i != j and not (o["op"] == "write" and gone is not None and o["src"] == gone)]


def shrink(case, ops):
    """drop steps while the history still changes what the matrix reports"""
    ops = list(ops)
    changed = True
    while changed:
        changed = False
        for j in range(len(ops) - 1, -1, -1):
            cand = _drop(ops, j)
            if len(cand) == len(ops):
                continue
            try:
                if cand and run_history(case, cand)["first_bad"] is not None:
                    ops, changed = cand, True
                    break
            except Exception:
                pass
    return ops


def observe(case):
    obs = run_history(case)
    if obs["first_bad"] is not None:
        upto = case["ops"][: obs["first_bad"] + 1]
        mini = shrink(case, upto)
        obs["min_ops"] = mini
        obs["min"] = run_history(case, mini, detail=True)
    return obs


# ----------------------------------------------------------------------------- model side


def _model_request(obs, ops, steps):
    kinds_by_name = {n: (k, g) for n, k, g in table()}
    kinds, guarded = [], []
    for name, _ in obs["insts"]:
        k, g = kinds_by_name.get(name, ("freshCopy", False))
        kinds.append(k)
        guarded.append(g)
    read_step = {}
    mops = []
    for t, (op, rec) in enumerate(zip(ops, steps)):
        if op["op"] == "read":
            read_step[op["id"]] = t
            if rec.get("acc") is None or "raised" in rec:
                mops.append({"write": 10**6, "i": 0, "raw": True})  # a read that raised hands nothing out: no-op
            else:
                mops.append({"read": rec["acc"]})
        elif op["op"] == "write":
            src = read_step.get(op["src"], 10**6)
            carried = rec["refused"] is None
            plain = rec["channel"] == "setitem"
            if plain:
                mops.append({"write": src, "i": 0, "raw": False})  # the model decides whether the guard refuses it
            else:
                mops.append({"write": src, "i": 0 if carried else 10**6, "raw": True})
        elif op["op"] == "mutarg":
            mops.append({"mutarg": rec["argno"], "i": 0 if rec["refused"] is None else 10**6})
        else:
            mops.append({"call": True})
    keep = [i for i, a in enumerate(obs["argnames"]) if f"{obs['ctor']}.{a}" in ctor_shared()]
    return {"op": "heap", "kinds": kinds, "guarded": guarded, "args": [[1, 2, 3]] * obs["nargs"], "keep": keep, "ops": mops}


def requests(case, obs):
    n = len(obs["steps"])
    return [_model_request(obs, case["ops"][:n], obs["steps"])]


def _describe(op, rec, insts):
    if op["op"] == "read":
        n, a = op["acc"]
        return f"read {n}{a if a else ''}"
    if op["op"] == "write":
        return f"write into the object read by step id {op['src']} through `{rec.get('channel')}`" + (
            f" (refused: {rec['refused']})" if rec.get("refused") else "")
    if op["op"] == "mutarg":
        return f"write into constructor argument `{rec.get('which')}` through `{rec.get('channel')}`" + (
            f" (refused: {rec['refused']})" if rec.get("refused") else "")
    return f"call {op['what']}"


def _describe_args(case):
    d = case["dm"]
    if d["ctor"] != "df":
        return f"mkdm, {d.get('argform', 'array')}s"
    return f"DecisionMatrix(df), frame made by `{d.get('frame', 'index')}` with axis names {d.get('axisnames')}, " \
           f"{d.get('argform', 'array')}s"


def judge(case, obs, replies):
    out = []
    rep = replies[0]
    steps = obs["steps"]
    if "steps" not in rep:
        return [{"kind": "correspondence", "what": f"model refused the history: {rep}"}]
    for ch in obs.get("ctor_changed", [])[:1]:
        # inputs never mutated: the caller's own object is exactly as it was (values, dtypes, labels, axis names)
        out.append({
            "kind": "property",
            "what": f"{ch['by']} changed the caller's own `{ch['arg']}` (arguments: {_describe_args(case)})",
            "expected": {"unchanged": ch["arg"], "was": ch["before"]},
            "observed": {"changed": [c["arg"] for c in obs["ctor_changed"]], "now": ch["after"]},
            "case": dict(case, ops=[]),
        })
    if obs["first_bad"] is not None and not obs["min"]["steps"][-1]["changed"]:
        mini, mobs = obs["min_ops"], obs["min"]
        last = mobs["steps"][-1]
        hist = [_describe(o, r, mobs["insts"]) for o, r in zip(mini, mobs["steps"])]
        out.append({
            "kind": "property",
            "what": "a step changed the caller's own constructor argument(s): " + " ; ".join(hist) + " -> changed: "
                    + ", ".join(last["args_changed"]) + f" (arguments: {_describe_args(case)})",
            "expected": {"unchanged": last["args_changed"][:1], "was": last.get("before")},
            "observed": {"history": hist, "changed": last["args_changed"], "now": last.get("after")},
            "case": dict(case, ops=mini),
        })
    elif obs["first_bad"] is not None:
        mini, mobs = obs["min_ops"], obs["min"]
        last = mobs["steps"][-1]
        names = [f"{n}{a if a else ''}" for n, a in (mobs["insts"][i] for i in last["changed"][:8])]
        hist = [_describe(o, r, mobs["insts"]) for o, r in zip(mini, mobs["steps"])]
        out.append({
            "kind": "property",
            "what": "a caller changed what the matrix/result reports: " + " ; ".join(hist) + " -> changed: " + ", ".join(names),
            "expected": {"unchanged": names[:1], "was": last.get("before")},
            "observed": {"history": hist, "changed": names, "now": last.get("after")},
            "case": dict(case, ops=mini),
        })
    # correspondence: step by step, the model changes an answer exactly when the implementation does
    for t, (rec, m) in enumerate(zip(steps, rep["steps"])):
        real, model = bool(rec["changed"]), bool(m["changed"])
        # the model treats a `memoShared` accessor as sharing the whole object; the implementation may share only part
        # of it (label storage): "model changes, implementation does not" is an over-approximation, never a finding —
        # and it cannot occur at all unless the generated table has a memoShared row (theorem answer_run)
        if real and not model:
            out.append({"kind": "correspondence",
                        "what": f"step {t} ({_describe(case['ops'][t], rec, obs['insts'])}): model predicts "
                                f"{'a changed answer' if model else 'all answers unchanged'}, implementation "
                                f"{'changed' if real else 'unchanged'}",
                        "expected": m["changed"], "observed": rec["changed"]})
            break
        if model and rec["op"] == "write" and not set(m["changed"]) <= set(rec["changed"]):
            out.append({"kind": "correspondence", "what": f"step {t}: the model changes accessors the implementation does not",
                        "expected": m["changed"], "observed": rec["changed"]})
            break
        if rec["op"] == "write" and rec.get("channel") == "setitem" and rec.get("src_acc") is not None \
                and rec.get("target") in ("ndarray", "_ACArray") and rec["refused"] != "skip":
            if m["applied"] != (rec["refused"] is None):
                out.append({"kind": "correspondence",
                            "what": f"step {t}: plain item assignment on what {obs['insts'][rec['src_acc']][0]} returned is "
                                    f"{'refused' if rec['refused'] else 'carried out'} by the implementation, the model says "
                                    f"{'carried out' if m['applied'] else 'refused'}",
                            "expected": m["applied"], "observed": rec["refused"]})
                break
    return out


def nontrivial(case, obs):
    return any((r["op"] in ("write", "mutarg") and r.get("refused") is None) or (r["op"] == "call" and "err" not in r)
               for r in obs["steps"])


def tags(case, obs):
    d = case["dm"]
    t = ["ctor:" + d["ctor"], "labels:" + d["labels"], "len:%02d" % len(case["ops"]),
         "result:" + (case["res"]["name"] if case.get("res") else "none"), "args:" + d.get("argform", "array")]
    if d["ctor"] == "df":
        an = d.get("axisnames") or {}
        t += ["frame:" + d.get("frame", "index"),
              "axisnames:" + ("+".join(k for k in ("index", "columns") if an.get(k) is not None) or "none")]
    for op, r in zip(case["ops"], obs["steps"]):
        if r["op"] == "read":
            t.append("read:" + op["acc"][0].split("(")[0].split("[")[0])
            if "raised" in r:
                t.append("read-raised")
        elif r["op"] in ("write", "mutarg"):
            t.append(f"{r['op']}:{r.get('target')}:{r.get('channel')}")
            t.append(f"{r['op']}-" + ("carried-out" if r["refused"] is None else "skip" if r["refused"] == "skip" else "refused"))
        else:
            t.append("call:" + op["what"]["kind"] + (":err" if "err" in r else ""))
    return sorted(set(t))


# ----------------------------------------------------------------------------- generation


def _labels(rng, kind, m, n):
    if kind == "str":
        return G.labels(rng, G.LABEL_POOL_ALT, m), G.labels(rng, G.LABEL_POOL_CRIT, n)
    a0, c0 = rng.randint(10, 50), rng.randint(100, 150)  # never equal to a position (the label lookup of _ACArray)
    return rng.sample(range(a0, a0 + 3 * m), m), rng.sample(range(c0, c0 + 3 * n), n)


def gen_dm(rng, res_spec=None, no_ties=False, m=None, n=None):
    if res_spec is not None:
        d = M.in_domain_dm(rng, res_spec, max_m=L.MAX_ALTS - 1, max_n=5, ties=0.0 if no_ties else rng.choice([0.0, 0.3]),
                           dominated=rng.choice([0.0, 0.5]))
    else:
        d = G.dm_case(rng, m=m, n=n, min_m=2, max_m=L.MAX_ALTS - 1, max_n=5, ties=0.0 if no_ties else 0.3,
                      dominated=rng.choice([0.0, 0.5, 0.9]), positive=rng.random() < 0.8)
    mm, nn = len(d["matrix"]), len(d["matrix"][0])
    if no_ties:  # strictly different values inside every criterion
        for j in range(nn):
            vals = rng.sample(range(1, 60), mm)
            for i in range(mm):
                d["matrix"][i][j] = vals[i] / 4
    d["labels"] = rng.choice(["str", "str", "int"])
    d["alternatives"], d["criteria"] = _labels(rng, d["labels"], mm, nn)
    # always labelled axes (explicit Index objects / label arrays); `DecisionMatrix(ndarray, …)` without labels gets
    # RangeIndex axes, which are outside the domain (see ASSUMPTIONS)
    d["ctor"] = rng.choice(["df", "df", "mkdm"])
    d["objdtype"] = rng.choice(["object-int", "object-fn", "int"])
    # the caller's own objects: objectives / weights / label arguments as arrays or as plain lists; for the class
    # constructor a frame that came about in one of the usual ways, its axes named or not
    d["argform"] = "list" if rng.random() < 0.2 else "array"
    if d["ctor"] == "df":
        # (a CSV file turns integer criteria labels into strings and evenly spaced integer alternatives into a
        # RangeIndex, which is outside the domain: read_csv frames have string labels)
        d["frame"] = rng.choice([f for f in L.FRAME_MAKERS if f != "read_csv" or d["labels"] == "str"])
        r = rng.random()
        d["axisnames"] = None if r < 0.25 else {
            "index": rng.choice(L.AXIS_NAME_POOL) if r < 0.75 else None,
            "columns": rng.choice(L.AXIS_NAME_POOL) if r >= 0.5 else None}
    return d


def _rand_call(rng, d, allow_ric):
    k = rng.choice(["transformer", "transformer", "agg", "pipeline", "rcmp", "slice"] + (["ric"] if allow_ric else []))
    if k == "transformer":
        return {"kind": k, "name": rng.choice(sorted(TRANSFORMERS))}
    if k == "agg":
        return {"kind": k, "spec": M.random_spec(rng, AGG)}
    if k == "pipeline":
        return {"kind": k, "steps": [rng.choice(["NegateMinimize", "InvertMinimize"]),
                                     rng.choice(["SumScaler-b", "VectorScaler-m", "MinMaxScaler-m", "StandarScaler-m"])],
                "spec": M.random_spec(rng, ["WSM", "TOPSIS", "RatioMOORA", "ELECTRE2"])}
    if k == "rcmp":
        return {"kind": k, "specs": [M.random_spec(rng, ["TOPSIS", "RatioMOORA", "ELECTRE2", "RefPointMOORA"]) for _ in range(2)]}
    if k == "ric":
        return {"kind": k, "spec": M.random_spec(rng, ["TOPSIS", "RatioMOORA"]), "seed": rng.randint(0, 10**6)}
    return {"kind": "slice"}


def gen_history(rng, d, has_res, length, allow_ric, insts):
    ops, reads, nid = [], [], 0
    for _ in range(length):
        r = rng.random()
        if r < 0.38 or (not reads and r < 0.62):
            # favour an accessor that has just been written into (read / write / re-read is what exposes sharing)
            inst = rng.choice(reads)[1] if reads and rng.random() < 0.3 else rng.choice(insts)
            ops.append({"op": "read", "id": nid, "acc": [inst[0], list(inst[1])]})
            reads.append((nid, inst))
            nid += 1
        elif r < 0.62:
            ops.append({"op": "write", "src": rng.choice(reads[-4:])[0], "pick": rng.randrange(1000), "pos": rng.randrange(64)})
        elif r < 0.80:
            ops.append({"op": "mutarg", "which": "?", "pick": rng.randrange(1000), "pos": rng.randrange(64)})
        else:
            ops.append({"op": "call", "what": _rand_call(rng, d, allow_ric)})
    return ops


def _static_instances(d, has_res, rkind):
    """the accessor alphabet of a case without building it (same enumeration as Subject.instances)"""
    m, n = len(d["matrix"]), len(d["matrix"][0])
    out = []
    mm = min(5, m)
    for a in L.ACCESSORS:
        if a.owner == "res" and (not has_res or (a.only and a.only != rkind)):
            continue
        if a.param is None:
            out.append((a.name, ()))
        elif a.param == "alt":
            out.extend((a.name, (i,)) for i in range(mm))
        elif a.param == "crit":
            out.extend((a.name, (j,)) for j in range(n))
        elif a.param == "altpair":
            out.extend([(a.name, (i, j)) for i in range(mm) for j in range(mm) if i != j][:2])
    return out


def _case(rng, length=None):
    with_res = rng.random() < 0.6
    spec = M.random_spec(rng, AGG) if with_res else None
    allow_ric = rng.random() < 0.25
    d = gen_dm(rng, spec, no_ties=allow_ric)
    rkind = None if spec is None else ("kernel" if spec["name"] == "ELECTRE1" else "rank")
    insts = _static_instances(d, with_res, rkind)
    L_ = length or rng.randint(1, 25)
    return {"kind": "history", "dm": d, "res": spec, "ops": gen_history(rng, d, with_res, L_, allow_ric, insts)}


# exhaustive tier: every history of length <= 4 over this alphabet, on one fixed matrix with a dominance chain
_EX_DM = {"matrix": [[1.0, 2.0], [2.0, 3.0], [3.0, 4.0]], "objectives": [1, 1], "weights": [0.25, 0.75],
          "alternatives": ["A", "B", "C"], "criteria": ["x", "y"], "labels": "str", "ctor": "df", "objdtype": "object-int",
          "family": "dyadic", "frame": "index", "axisnames": {"index": "vehicle", "columns": "feature"}}
_EX_READS = [("dm.objectives", ()), ("dm.alternatives", ()), ("dm.dominance.dominators_of(a)", (0,)), ("res.values", ())]
_EX_ALPHABET = ["R0", "R1", "R2", "R3", "Wlast-a", "Wlast-b", "Wfirst", "M", "C"]


def _ex_history(word):
    ops, reads, nid = [], [], 0
    for sym in word:
        if sym[0] == "R":
            inst = _EX_READS[int(sym[1])]
            ops.append({"op": "read", "id": nid, "acc": [inst[0], list(inst[1])]})
            reads.append(nid)
            nid += 1
        elif sym[0] == "W":
            if not reads:
                return None
            src = reads[0] if sym == "Wfirst" else reads[-1]
            # a: the first raw channel of the type; b: Index storage for pandas objects / `base` for arrays
            ops.append({"op": "write", "src": src, "pick": 0, "pos": 0, "ex": sym})
        elif sym == "M":
            ops.append({"op": "mutarg", "which": "weights", "channel": "flat", "pos": 0})
        else:
            ops.append({"op": "call", "what": {"kind": "transformer", "name": "SumScaler-b"}})
    return ops


_EX_CHANNEL = {  # explicit channels of the exhaustive alphabet, by type of the object written into
    "Wlast-a": {"Series": "values_setflags", "ndarray": "flat", "_ACArray": "nd_setitem", "DataFrame": "values_setflags"},
    "Wlast-b": {"Series": "index.values", "ndarray": "setitem", "_ACArray": "setitem", "DataFrame": "columns.values"},
    "Wfirst": {"Series": "iloc", "ndarray": "setflags_nd_setitem", "_ACArray": "view", "DataFrame": "iloc"},
}
_EX_TYPE = {"dm.objectives": "Series", "dm.alternatives": "_ACArray",
            "dm.dominance.dominators_of(a)": "ndarray", "res.values": "ndarray"}


def _exhaustive():
    cases = []
    for n in range(1, 5):
        for word in itertools.product(_EX_ALPHABET, repeat=n):
            ops = _ex_history(word)
            if ops is None:
                continue
            by_id = {o["id"]: o["acc"][0] for o in ops if o["op"] == "read"}
            for o in ops:
                if o["op"] == "write":
                    o["channel"] = _EX_CHANNEL[o.pop("ex")][_EX_TYPE[by_id[o["src"]]]]
            cases.append({"kind": "history", "dm": _EX_DM, "res": {"name": "TOPSIS", "metric": "euclidean"}, "ops": ops,
                          "word": "".join(word)})
    return cases


def gen(ctx):
    rng = ctx.rng
    cases = [_case(rng) for _ in range(ctx.n(320, 3000))]
    # directed: read X / write through every channel of its type / re-read X, for every accessor instance
    for _ in range(ctx.n(30, 120)):
        c = _case(rng, length=1)
        with_res = c["res"] is not None
        rkind = None if not with_res else ("kernel" if c["res"]["name"] == "ELECTRE1" else "rank")
        insts = _static_instances(c["dm"], with_res, rkind)
        rng.shuffle(insts)
        ops, nid = [], 0
        for inst in insts[:6]:
            ops.append({"op": "read", "id": nid, "acc": [inst[0], list(inst[1])]})
            for k in range(4):
                ops.append({"op": "write", "src": nid, "pick": rng.randrange(1000), "pos": rng.randrange(16)})
            nid += 1
        c["ops"] = ops[:25]
        cases.append(c)
    if ctx.thorough:
        cases += _exhaustive()
    return cases


def search_gen(ctx):
    return [_case(ctx.rng) for _ in range(400)]
