"""C04 — reported scores equal the published formulas; out-of-domain input is refused."""
from __future__ import annotations

from decimal import Decimal, getcontext
from fractions import Fraction

import numpy as np

import common as C
import gen as G
import methods as M

getcontext().prec = 60

PID = "C04"
RULE = (
    "cases: (matrix, objectives, positive weights, method) for WSM, WPM, TOPSIS x {euclidean, sqeuclidean, cityblock, chebyshev, "
    "minkowski}, RatioMOORA, ReferencePointMOORA, FMF, MultiMOORA, non-square, 1..6 criteria, all objective mixes, dyadic and "
    "arbitrary doubles, ties/near-ties; plus a malformed stream (minimise objective, zero / negative cells) for the refusal clause. "
    "Three legs: implementation vs Lean model (exact Rat, or Lean Float for sqrt/log kernels) vs an independent Fraction/50-digit "
    "Decimal evaluation of the published formula (the property oracle). Non-trivial: >= 2 alternatives and >= 2 criteria, or a refusal case."
)
ASSUMPTIONS = [
    "numeric agreement means |impl - exact| <= 1e-9 * scale (forward bound from the input); order is checked only on pairs whose exact "
    "scores differ by more than twice that margin",
    "scipy cdist metrics euclidean/sqeuclidean/cityblock/chebyshev/minkowski(p=2) are external: modelled by their textbook formulas",
]
PARTIAL = "IEEE rounding and summation order are not modelled; theorems are over ordered fields / R, the Float run of the model only accompanies the code"
TRUSTED = ["Lean Float (C libm sqrt/log/log10) is used only to run the model next to the code, never in a theorem"]
K2 = {"member": "score", "explained_by": "fmfCode (Aj = 1.0 when no maximise criterion)", "site": "skcriteria/agg/moora.py fmf"}

NAMES = ["WSM", "WPM", "TOPSIS", "TOPSIS", "RatioMOORA", "RefPointMOORA", "FMF", "MultiMOORA"]


def gen(ctx):
    rng = ctx.rng
    cases = []
    for _ in range(ctx.n(300, 7000)):
        spec = M.random_spec(rng, NAMES)
        dm = M.in_domain_dm(rng, spec, max_m=ctx.n(9, 14), max_n=6, ties=rng.choice([0.0, 0.2, 0.5]), dups=0.1)
        if dm["family"] == "dyadic" and rng.random() < 0.15:
            # large common offset, small spread (figures around 2^27 differing by units): everything stays exact in
            # binary64 when differences are taken first, while expanded squares would cancel catastrophically
            off = float(2 ** 27)
            dm["matrix"] = [[x + off for x in row] for row in dm["matrix"]]
            dm["int_matrix"] = False
            if rng.random() < 0.5:
                # ... with weights that are not dyadic (0.3, 0.45): products a*w are rounded at the size of the level
                dm["weights"] = [rng.choice([0.3, 0.45, 0.7, 0.15, 1.1, 0.05, 0.6, 0.9]) for _ in dm["weights"]]
                dm["family"] = "float"
        if rng.random() < 0.2:
            # the same problem in very small / very large units (exact power of two): "up to rounding" is relative to the scale
            k = 2.0 ** rng.choice([-40, -30, 30, 40])
            dm["matrix"] = [[x * k for x in row] for row in dm["matrix"]]
            dm["int_matrix"] = False
            dm["units"] = k
        if rng.random() < 0.08:
            dm = M.narrow_int_variant(rng, dm)
        cases.append({"kind": "score", "spec": spec, "dm": dm})
    # a fixed share: criteria spanning many orders of magnitude (1e14 next to 4e-3 in one criterion) — ideal / anti-ideal are cells of the
    # weighted matrix, whatever else is in the column
    for _ in range(ctx.n(30, 300)):
        spec = rng.choice([{"name": "TOPSIS", "metric": rng.choice(["euclidean", "cityblock", "chebyshev", "sqeuclidean"])}, {"name": "RefPointMOORA"}])
        dm = M.in_domain_dm(rng, spec, min_m=3, max_m=8, min_n=2, max_n=4, family="float", ties=0.0, dups=0.0)
        j = rng.randrange(len(dm["objectives"]))
        big, small = rng.choice([1e14, 3.0e12, 2.0 ** 53, 1e16]), rng.choice([3.7e-3, 1.25e-2, 0.5, 1e-5])
        rows = list(range(len(dm["matrix"])))
        rng.shuffle(rows)
        dm["matrix"][rows[0]][j] = big
        dm["matrix"][rows[1]][j] = small
        cases.append({"kind": "score", "spec": spec, "dm": dm})
    # … and MultiMOORA on more than 127 / 255 alternatives (component rankings with more than 127 distinct ranks)
    for m_ in ([130, 260] if not ctx.thorough else [130, 200, 260, 300]):
        spec = {"name": "MultiMOORA"}
        dm = M.in_domain_dm(rng, spec, min_m=4, max_m=6, min_n=2, max_n=3, family="float", ties=0.0, dups=0.0)
        dm["matrix"] = [[float(G.value(rng, "float", True)) for _ in dm["objectives"]] for _ in range(m_)]
        dm["alternatives"] = [f"L{i}" for i in range(m_)]
        dm["int_matrix"] = False
        cases.append({"kind": "score", "spec": spec, "dm": dm})
    # malformed stream: refusal clause
    combos = [(nm, hw) for nm in ("WSM", "WPM", "FMF", "MultiMOORA") for hw in ("min-objective", "zero", "negative", "tiny-negative", "none")]
    for it in range(ctx.n(120, 1500)):
        name, how = combos[it % len(combos)]  # every (method, malformation) pair gets the same share of the stream
        spec = {"name": name}
        dm = M.in_domain_dm(rng, spec, max_m=6, max_n=4)
        tiny_forced = how == "tiny-negative"
        how = "negative" if tiny_forced else how
        if how == "min-objective":
            n_obj = len(dm["objectives"])
            for j in rng.sample(range(n_obj), rng.randint(1, n_obj)):  # one, several or all of them (odd and even counts)
                dm["objectives"][j] = -1
        elif how in ("zero", "negative"):
            i, j = rng.randrange(len(dm["matrix"])), rng.randrange(len(dm["objectives"]))
            tiny = tiny_forced or rng.random() < 0.2  # a negative value is a negative value, however small
            dm["matrix"][i][j] = 0.0 if how == "zero" else (-(2.0 ** -rng.randint(30, 60)) if tiny else -abs(dm["matrix"][i][j]) - 0.125)
            dm["int_matrix"] = False
        cases.append({"kind": "refusal", "spec": spec, "dm": dm, "how": how})
    return cases


def observe(case):
    with M.quiet():
        dm = G.mkdm(case["dm"])
        dec = M.build(case["spec"])
        M.warmup(dec, dm, case["dm"], case["spec"])
        try:
            res = dec.evaluate(dm)
        except Exception as e:
            return {"err": G.err_name(e), "msg": str(e)[:200]}
        o = {"rank": res.rank_.tolist(), "alts": [str(a) for a in res.alternatives]}
        for k in ("score", "similarity", "ideal", "anti_ideal", "reference_point", "ratio_score", "refpoint_score", "fmf_score"):
            if k in res.e_:
                o[k] = np.asarray(res.e_[k], dtype=float).tolist()
        if "rank_matrix" in res.e_:
            o["rank_matrix"] = np.asarray(res.e_["rank_matrix"]).tolist()
        return o


def _o(case):
    return ["max" if x == 1 else "min" for x in case["dm"]["objectives"]]


def _agg_req(case, method, domain, metric=None):
    enc = C.rat if domain == "rat" else C.fbits
    r = {"op": "agg", "method": method, "domain": domain, "M": [[enc(x) for x in row] for row in case["dm"]["matrix"]],
         "O": _o(case), "w": [enc(x) for x in case["dm"]["weights"]]}
    if metric:
        r["metric"] = metric
    return r


FIELD_METRICS = ("sqeuclidean", "cityblock", "chebyshev")


def requests(case, obs):
    name = case["spec"]["name"]
    if case["kind"] == "refusal":
        return [_agg_req(case, "guards", "rat")]
    if "err" in obs:
        return []
    if name == "WSM":
        return [_agg_req(case, "wsm", "rat")]
    if name == "WPM":
        return [_agg_req(case, "wpm", "float")]
    if name == "RatioMOORA":
        return [_agg_req(case, "ratio", "rat")]
    if name == "RefPointMOORA":
        return [_agg_req(case, "refpoint", "rat")]
    if name == "FMF":
        return [_agg_req(case, "fmf", "float")]
    if name == "TOPSIS":
        metric = case["spec"].get("metric", "euclidean")
        return [_agg_req(case, "topsis", "rat" if metric in FIELD_METRICS else "float", metric)]
    if name == "MultiMOORA":
        return [_agg_req(case, "ratio", "rat"), _agg_req(case, "refpoint", "rat"), _agg_req(case, "fmf", "float"),
                {"op": "multimoora-post", "ratio_score": C.rats(obs["ratio_score"]), "refpoint_score": C.rats(obs["refpoint_score"]),
                 "fmf_score": C.rats(obs["fmf_score"])}]
    return []


# ----------------------------------------------------------------------------- the formulas, exactly


def D(x):
    if isinstance(x, Fraction):
        return Decimal(x.numerator) / Decimal(x.denominator)
    return Decimal(x)


def exact(case):
    """published formulas in exact arithmetic (Fraction; Decimal(60) where log / sqrt occur).
    returns dict name -> list, plus 'scale' per output for the 1e-9*scale rule"""
    dm = case["dm"]
    A = [[C.F(x) for x in r] for r in dm["matrix"]]
    w = [C.F(x) for x in dm["weights"]]
    o = dm["objectives"]
    m, n = len(A), len(w)
    name = case["spec"]["name"]
    out = {}
    absmax = max(abs(x) for r in A for x in r)
    wsum = sum(abs(x) for x in w)

    def ratio():
        return [sum(A[i][j] * w[j] * o[j] for j in range(n)) for i in range(m)]

    def refpoint():
        ref = [max(A[i][j] for i in range(m)) if o[j] == 1 else min(A[i][j] for i in range(m)) for j in range(n)]
        return [max(abs(w[j] * (A[i][j] - ref[j])) for j in range(n)) for i in range(m)], ref

    def refpoint_scale(s):
        # w * (x - r): the difference of two doubles is correctly rounded, so the score carries a few ulps of ITS OWN size,
        # whatever the common level of the data; the scale is the size of the scores, not of the cells
        return float(max(s)) or lin_scale

    def fmf():
        return [sum((1 if o[j] == 1 else -1) * D(A[i][j] * w[j]).ln() for j in range(n)) for i in range(m)]

    lin_scale = float(wsum * absmax) or 1.0  # relative to the problem's own scale (no absolute floor)
    if name == "WSM":
        out["score"] = ([sum(A[i][j] * w[j] for j in range(n)) for i in range(m)], lin_scale)
    elif name == "RatioMOORA":
        out["score"] = (ratio(), lin_scale)
    elif name == "RefPointMOORA":
        s, ref = refpoint()
        out["score"] = (s, refpoint_scale(s))
        out["reference_point"] = (ref, float(absmax) or 1.0)
    elif name == "WPM":
        sc = [sum(D(w[j]) * D(A[i][j]).log10() for j in range(n)) for i in range(m)]
        out["score"] = (sc, float(max(1, max(abs(D(w[j]) * D(A[i][j]).log10()) for i in range(m) for j in range(n)) * n)))
    elif name == "FMF":
        sc = fmf()
        out["score"] = (sc, float(max(1, max(abs(D(A[i][j] * w[j]).ln()) for i in range(m) for j in range(n)) * n)))
    elif name == "MultiMOORA":
        out["ratio_score"] = (ratio(), lin_scale)
        s, ref = refpoint()
        out["refpoint_score"] = (s, refpoint_scale(s))
        out["reference_point"] = (ref, float(absmax) or 1.0)
        out["fmf_score"] = (fmf(), float(max(1, max(abs(D(A[i][j] * w[j]).ln()) for i in range(m) for j in range(n)) * n)))
    elif name == "TOPSIS":
        metric = case["spec"].get("metric", "euclidean")
        V = [[A[i][j] * w[j] for j in range(n)] for i in range(m)]
        hi = [max(V[i][j] for i in range(m)) for j in range(n)]
        lo = [min(V[i][j] for i in range(m)) for j in range(n)]
        ideal = [hi[j] if o[j] == 1 else lo[j] for j in range(n)]
        anti = [lo[j] if o[j] == 1 else hi[j] for j in range(n)]

        def dist(x, t):
            if metric == "cityblock":
                return sum(abs(a - b) for a, b in zip(x, t))
            if metric == "chebyshev":
                return max(abs(a - b) for a, b in zip(x, t))
            s = sum((a - b) ** 2 for a, b in zip(x, t))
            return s if metric == "sqeuclidean" else D(s).sqrt()

        sim, cond = [], 1.0
        vmax = float(max(abs(x) for r in V for x in r))
        for i in range(m):
            db, dw = dist(V[i], ideal), dist(V[i], anti)
            tot = db + dw
            if tot == 0:
                sim.append(None)
                continue
            sim.append(D(dw) / D(tot) if not isinstance(tot, Fraction) else dw / tot)
            ratio_c = n * vmax / float(tot if metric != "sqeuclidean" else D(tot).sqrt())
            if dm.get("family") != "dyadic":
                # arbitrary doubles: v = a*w is rounded, so differences v - ideal carry an error relative to |v|;
                # dyadic data (exact products and differences) gets no such allowance
                cond = max(cond, ratio_c ** (2 if metric == "sqeuclidean" else 1))
        out["similarity"] = (sim, cond)
        out["ideal"] = (ideal, vmax or 1.0)
        out["anti_ideal"] = (anti, vmax or 1.0)
    return out


def dense_rank(xs, reverse):
    d = sorted(set(xs), reverse=reverse)
    return [d.index(x) + 1 for x in xs]


def mm_score(rm):
    m = len(rm)
    sc = [0] * m
    for a in range(m):
        for b in range(a + 1, m):
            ra, rb = rm[a], rm[b]
            if any(x == y for x, y in zip(ra, rb)):
                continue
            awins = sum(1 for x, y in zip(ra, rb) if x < y)
            bwins = sum(1 for x, y in zip(ra, rb) if y < x)
            if awins > bwins:
                sc[a] += 1
            elif bwins > awins:
                sc[b] += 1
    return sc


SCORE_KEY = {"TOPSIS": "similarity"}


def judge(case, obs, replies):
    out = []
    name = case["spec"]["name"]
    dm = case["dm"]

    def prop(what, expected=None, observed=None, identity=None):
        f = {"kind": "property", "what": what, "expected": expected, "observed": observed}
        if identity:
            f["identity"] = identity
        out.append(f)

    def corr(what, expected=None, observed=None):
        out.append({"kind": "correspondence", "what": what, "expected": expected, "observed": observed})

    if case["kind"] == "refusal":
        o, A = dm["objectives"], dm["matrix"]
        hasmin = any(x == -1 for x in o)
        neg = any(x < 0 for r in A for x in r)
        nonpos = any(x <= 0 for r in A for x in r)
        should = {"WSM": hasmin or neg, "WPM": hasmin or nonpos, "FMF": nonpos, "MultiMOORA": nonpos}[name]
        refused = obs.get("err") == "ValueError"
        if "err" in obs and not refused:
            prop(f"{name}: out-of-domain input raised {obs['err']} instead of ValueError", "ValueError", obs["err"])
        elif should and not refused:
            prop(f"{name}: out-of-domain input ({case['how']}) yields a ranking instead of ValueError", "ValueError", obs.get("rank"))
        elif refused and not should:
            prop(f"{name}: in-domain input refused: {obs.get('msg')}", "ranking", "ValueError")
        g = replies[0]
        mg = {"WSM": g.get("wsm"), "WPM": g.get("wpm"), "FMF": g.get("fmf"), "MultiMOORA": g.get("fmf")}[name]
        if mg != refused:
            corr(f"{name}: guard, model vs implementation", mg, refused)
        return out

    if "err" in obs:
        prop(f"{name} refused an in-domain matrix with {obs['err']}: {obs.get('msg')}")
        return out
    ex = exact(case)
    allmin = all(x == -1 for x in dm["objectives"])

    def numeric(key, impl, exact_vals, scale, what):
        tol = 1e-9 * scale
        bad = None
        # ideal / anti-ideal / reference point are SELECTED cells (a maximum or minimum of (weighted) values): each coordinate carries
        # the rounding of its own product only, so it is judged relative to ITS OWN size, not to the largest value of the problem
        own = key in ("ideal", "anti_ideal", "reference_point")
        for i, (a, b) in enumerate(zip(impl, exact_vals)):
            if b is None:
                continue
            t = D(1e-9) * abs(D(b)) if own else D(tol)
            if not np.isfinite(a) or abs(D(a) - D(b)) > t:
                bad = i
                break
        if bad is not None:
            ident = None
            if key in ("score", "fmf_score") and name in ("FMF", "MultiMOORA") and allmin and \
                    all(abs(D(a) - (D(b) + 1)) <= D(tol) for a, b in zip(impl, exact_vals)):
                ident = K2
            prop(f"{name}: reported {key} differs from the published formula ({what})",
                 {"index": bad, "exact": str(exact_vals[bad])[:40], "tol": tol}, impl[bad], ident)
            return False
        return True

    skey = SCORE_KEY.get(name, "score")
    for key, (vals, scale) in ex.items():
        numeric(key, obs[key], vals, scale, "independent exact evaluation")
    # order of alternatives vs exact values (pairs separated by more than the margin)
    if name != "MultiMOORA":
        vals, scale = ex[skey]
        rev = M.METHODS[name]["rev"]
        tol = D(2e-9 * scale)
        r = obs["rank"]
        for i in range(len(vals)):
            for j in range(len(vals)):
                if vals[i] is None or vals[j] is None:
                    continue
                gap = D(vals[i]) - D(vals[j])
                if gap > tol:  # i has the larger exact score
                    ok = (r[i] < r[j]) if rev else (r[i] > r[j])
                    if not ok:
                        prop(f"{name}: alternatives not ordered as the exact {skey} orders them",
                             {"i": i, "j": j, "exact": [str(vals[i])[:30], str(vals[j])[:30]]}, [r[i], r[j]])
                        break
            else:
                continue
            break
    else:
        rm = obs["rank_matrix"]
        cols = [dense_rank([C.F(x) for x in obs["ratio_score"]], True), dense_rank([C.F(x) for x in obs["refpoint_score"]], False),
                dense_rank([C.F(x) for x in obs["fmf_score"]], True)]
        exp_rm = [list(t) for t in zip(*cols)]
        if rm != exp_rm:
            prop("MultiMOORA: rank_matrix is not the three component rankings", exp_rm, rm)
        sc = mm_score(rm)
        if [float(x) for x in sc] != obs["score"]:
            prop("MultiMOORA: score is not the documented pairwise-dominance count over the rank matrix", sc, obs["score"])
        if obs["rank"] != dense_rank(obs["score"], True):
            prop("MultiMOORA: final ranking does not follow the score", dense_rank(obs["score"], True), obs["rank"])

    # correspondence with the Lean model
    def close(a, b, scale):
        return abs(a - b) <= 1e-9 * scale

    def cmp_model(rep, key, impl, scale, dec=None):
        mv = rep.get(key)
        if mv is None:
            corr(f"{name}: model has no {key}", None, rep)
            return
        vals = [(float(C.frac(x)) if "/" in x else C.unfbits(x)) if x is not None else float("nan") for x in mv]
        if len(vals) != len(impl) or any(not close(a, b, scale) for a, b in zip(vals, impl) if np.isfinite(b)):
            corr(f"{name}: {key}, model vs implementation", vals, impl)

    if name == "MultiMOORA":
        cmp_model(replies[0], "score", obs["ratio_score"], ex["ratio_score"][1])
        cmp_model(replies[1], "score", obs["refpoint_score"], ex["refpoint_score"][1])
        cmp_model(replies[1], "reference_point", obs["reference_point"], ex["reference_point"][1])
        cmp_model(replies[2], "score", obs["fmf_score"], ex["fmf_score"][1])
        post = replies[3]
        if post.get("rank_matrix") != obs["rank_matrix"] or [float(x) for x in post.get("score", [])] != obs["score"] or post.get("rank") != obs["rank"]:
            corr("MultiMOORA: rank_matrix / score / rank, model vs implementation", post, [obs["rank_matrix"], obs["score"], obs["rank"]])
    else:
        rep = replies[0]
        cmp_model(rep, "score", obs[skey], ex[skey][1])
        for key in ("ideal", "anti_ideal", "reference_point"):
            if key in obs:
                cmp_model(rep, key, obs[key], ex[key][1])
    return out


def nontrivial(case, obs):
    return case["kind"] == "refusal" or (len(case["dm"]["matrix"]) >= 2 and len(case["dm"]["objectives"]) >= 2)


def tags(case, obs):
    t = [case["kind"], "method:" + case["spec"]["name"], "family:" + case["dm"].get("family", "?")]
    if case["kind"] == "refusal":
        t.append("how:" + case["how"])
        t.append("refused" if "err" in obs else "accepted")
    else:
        o = case["dm"]["objectives"]
        t.append("objs:" + ("max" if all(x == 1 for x in o) else "min" if all(x == -1 for x in o) else "mixed"))
        if case["spec"]["name"] == "TOPSIS":
            t.append("metric:" + case["spec"].get("metric", "euclidean"))
    return t
